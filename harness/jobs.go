package main

// Driver "jobs": the contract of ONE tier2 segment job, exhaustively over the cache files of its segment.
//
// A fixed three-stage program (source mapper -> store st1 -> store st2 reading st1 -> mapper out, variants with a sparse
// skip-empty mapper, a deltas reader and a block index) is first run to completion by the real tier1, every file ever seen
// being remembered with its content (the reference). Then, for every stage k and EVERY subset X of the files that belong to
// segment 1 (cached outputs of each module, partial and full snapshots of each store at the segment end), a directory holding
// the complete files of segment 0 plus X is prepared and the real Tier2Service.ProcessRange(stage k, segment 1) runs on it.
// Logged: k, X, the error, and the files afterwards with "equals the reference content" per file. TraceJob.tla judges the job
// contract: it succeeds, deletes nothing, every file it leaves equals the clean run's, and afterwards the outputs of every module
// of stages <= k and a snapshot of every store of stages <= k exist for the segment.

import (
	"bytes"
	"context"
	"fmt"
	"io"
	"math/rand"
	"os"
	"path/filepath"
	"sort"
	"strings"

	"github.com/streamingfast/bstream"
	bsstream "github.com/streamingfast/bstream/stream"
	"github.com/streamingfast/dstore"
	"github.com/streamingfast/substreams"
	pbssinternal "github.com/streamingfast/substreams/pb/sf/substreams/intern/v2"
	"github.com/streamingfast/substreams/pipeline/exec"
	"github.com/streamingfast/substreams/reqctx"
	"github.com/streamingfast/substreams/service"
	"github.com/streamingfast/substreams/sqe"
	"github.com/streamingfast/substreams/storage/execout"
	pboutput "github.com/streamingfast/substreams/storage/execout/pb"
	"github.com/streamingfast/substreams/storage/index"
	pbindexes "github.com/streamingfast/substreams/storage/index/pb"
	"github.com/streamingfast/substreams/storage/store"
	pbstore "github.com/streamingfast/substreams/storage/store/marshaller/pb"
	"go.uber.org/zap"
	"google.golang.org/protobuf/proto"
)

func init() { register("jobs", runJobs) }

func jobsProg(variant int) sysProg {
	body := func(kind string) vbody {
		return vbody{Kind: kind, Emit: always(), FailAt: -1, Terms: []vterm{}, Ops: []vop{}, Keys: []vkey{}}
	}
	src := sysMod{Name: "m_src", Kind: "map", Inputs: []ainput{{K: "source", V: blockType}}, Filter: []any{}, Body: body("map")}
	src.Body.Terms = []vterm{{T: "num", C: 1}, {T: "const", C: 1}}
	if variant%2 == 1 { // sparse, skip-empty source mapper
		src.Body.Emit = whenMod(2, 0)
		src.Body.SkipEmpty = true
	}
	st1 := sysMod{Name: "st1", Kind: "store", Inputs: []ainput{{K: "map", V: "m_src"}}, Filter: []any{}, Body: body("store")}
	st1.Body.Pol, st1.Body.VT = "add", "int64"
	st1.Body.Ops = []vop{{Op: "w", Base: 0, Step: 1, Val: []vterm{{T: "in", I: 0, C: 1}, {T: "const", C: 1}}, When: always()}}
	if variant%2 == 1 { // ... and a store fed by the block source itself
		st1.Inputs = []ainput{{K: "source", V: blockType}}
		st1.Body.Ops = []vop{{Op: "w", Base: 0, Step: 1, Val: []vterm{{T: "num", C: 1}, {T: "const", C: 1}}, When: always()}}
	}
	mode := "get"
	if variant >= 2 {
		mode = "deltas"
	}
	st2 := sysMod{Name: "st2", Kind: "store", Inputs: []ainput{{K: "map", V: "m_src"}, {K: "store", V: "st1", Mode: mode}}, Filter: []any{}, Body: body("store")}
	st2.Body.Pol, st2.Body.VT = "add", "int64"
	if mode == "get" {
		st2.Body.Ops = []vop{{Op: "w", Base: 1, Step: 1, Val: []vterm{{T: "get", I: 1, C: 1, Key: "a", How: "last", Num: true}, {T: "const", C: 1}}, When: always()}}
	} else {
		st2.Body.Ops = []vop{{Op: "w", Base: 1, Step: 1, Val: []vterm{{T: "dsum", I: 1, C: 1, Num: true}, {T: "dcount", I: 1, C: 100}}, When: always()}}
	}
	out := sysMod{Name: "out", Kind: "map", Inputs: []ainput{{K: "map", V: "m_src"}, {K: "store", V: "st2", Mode: "get"}, {K: "store", V: "st1", Mode: "deltas"}}, Filter: []any{}, Body: body("map")}
	out.Body.Terms = []vterm{{T: "in", I: 0, C: 1}, {T: "get", I: 1, C: 10, Key: "b", How: "last", Num: true}, {T: "dcount", I: 2, C: 1000}}
	if variant == 4 {
		// a block index and TWO mappers filtered on it with a shared key; the first one starts strictly inside segment 1
		idx := sysMod{Name: "idx", Kind: "index", Inputs: []ainput{{K: "source", V: blockType}}, Filter: []any{}, Body: body("index")}
		idx.Body.Keys = []vkey{{Key: "even", When: whenMod(2, 0)}, {Key: "t3", When: whenMod(3, 0)}}
		flt := func(q string) []any {
			e, err := sqe.Parse(context.Background(), q)
			if err != nil {
				panic(err)
			}
			return []any{"idx", astJSON(e)}
		}
		f2 := sysMod{Name: "m_f2", Kind: "map", Init: 5, Inputs: []ainput{{K: "source", V: blockType}}, Filter: flt("even"), Query: "even", Body: body("map")}
		f2.Body.Terms = []vterm{{T: "num", C: 3}, {T: "const", C: 1}}
		out.Inputs = []ainput{{K: "map", V: "m_src"}, {K: "store", V: "st1", Mode: "get"}, {K: "map", V: "m_f2"}}
		out.Body.Terms = []vterm{{T: "in", I: 0, C: 1}, {T: "get", I: 1, C: 10, Key: "b", How: "last", Num: true}, {T: "in", I: 2, C: 1000}}
		out.Filter, out.Query = flt("even"), "even"
		return sysProg{src, idx, f2, st1, out}
	}
	return sysProg{src, st1, st2, out}
}

type jobFile struct {
	Mod   string `json:"mod"`
	Kind  string `json:"kind"`
	Start uint64 `json:"start"`
	End   uint64 `json:"end"`
	Eq    bool   `json:"eq"`  // content equals the clean run's file of the same name
	Ref   bool   `json:"ref"` // the clean run has a file of that name
}

// sameContent: the files hold protobuf maps whose entries are written in Go's (random) map order: equality is that of the
// decoded messages, not of the bytes
func sameContent(kind string, a, b []byte) bool {
	if bytes.Equal(a, b) {
		return true
	}
	var x, y proto.Message
	switch kind {
	case "output": // written as an Array of items (MarshalFast), in Go's map order
		mx, my := &pboutput.Map{}, &pboutput.Map{}
		if mx.UnmarshalFast(a) != nil || my.UnmarshalFast(b) != nil {
			return false
		}
		eq := proto.Equal(mx, my)
		if !eq && os.Getenv("VERIF_JOBDIFF") != "" {
			fmt.Fprintf(os.Stderr, "DIFF output\n got: %v\n ref: %v\n", mx, my)
			os.Setenv("VERIF_JOBDIFF", "")
		}
		return eq
	case "kv", "partial":
		x, y = &pbstore.StoreData{}, &pbstore.StoreData{}
	case "index":
		x, y = &pbindexes.Map{}, &pbindexes.Map{}
	default:
		return false
	}
	if e1, e2 := proto.Unmarshal(a, x), proto.Unmarshal(b, y); e1 != nil || e2 != nil {
		if os.Getenv("VERIF_JOBDIFF") != "" {
			fmt.Fprintf(os.Stderr, "DIFF %s undecodable: %v %v (%d / %d bytes)\n", kind, e1, e2, len(a), len(b))
		}
		return false
	}
	eq := proto.Equal(x, y)
	if !eq && os.Getenv("VERIF_JOBDIFF") != "" {
		fmt.Fprintf(os.Stderr, "DIFF %s\n got: %v\n ref: %v\n", kind, x, y)
		os.Setenv("VERIF_JOBDIFF", "")
	}
	return eq
}

func readAll(st dstore.Store, name string) ([]byte, error) {
	rc, err := st.OpenObject(context.Background(), name)
	if err != nil {
		return nil, err
	}
	defer rc.Close()
	return io.ReadAll(rc)
}

func jobCtx(env *sysEnv, seg uint64) context.Context {
	return reqctx.WithTier2RequestParameters(context.Background(), reqctx.Tier2RequestParameters{BlockType: blockType, StateBundleSize: seg,
		StateStoreURL: env.dir, StateStoreDefaultTag: "tag", MeteringConfig: "null://", MergedBlockStoreURL: "/tmp/verif-no-merged-blocks"})
}

func jobReq(env *sysEnv, seg uint64, k int, segment uint64) *pbssinternal.ProcessRangeRequest {
	return &pbssinternal.ProcessRangeRequest{Modules: env.mods, OutputModule: "out", Stage: uint32(k), MeteringConfig: "null://",
		MergedBlocksStore: "/tmp/verif-no-merged-blocks", StateStore: env.dir, SegmentSize: seg, SegmentNumber: segment, StateStoreDefaultTag: "tag", BlockType: blockType}
}

func jobSvc() *service.Tier2Service {
	return service.TestNewServiceTier2(false, func(ctx context.Context, h bstream.Handler, start int64, stop uint64, _ string, _ bool, _ bool, _ *zap.Logger, _ ...bsstream.Option) (service.Streamable, error) {
		return &linearStream{h: h, start: uint64(start), end: stop}, nil
	})
}

// realPlan: what the REAL service.GetExecutionPlan decides for (stage k, segment 1) on the current directory
func realPlan(env *sysEnv, g *exec.Graph, k int, seg uint64) map[string]any {
	out := map[string]any{"err": "", "skip": false, "required": []string{}, "toWrite": []string{}, "writers": []string{}}
	base, err := dstore.NewStore(env.dir, "zst", "zstd", true)
	if err != nil {
		out["err"] = err.Error()
		return out
	}
	if base, err = base.SubStore("tag"); err != nil { // the cache tag of the request (StateStoreDefaultTag)
		out["err"] = err.Error()
		return out
	}
	lg := zap.NewNop()
	ec, err1 := execout.NewConfigs(base, g.UsedModulesUpToStage(k), g.ModuleHashes(), seg, 0, lg)
	sc, err2 := store.NewConfigMap(base, g.Stores(), g.ModuleHashes(), 0)
	ic, err3 := index.NewConfigs(base, g.UsedIndexesModulesUpToStage(k), g.ModuleHashes(), 0, lg)
	if err1 != nil || err2 != nil || err3 != nil {
		out["err"] = fmt.Sprint(err1, err2, err3)
		return out
	}
	var p *service.ExecutionPlan
	pan := guard(func() {
		p, err = service.GetExecutionPlan(context.Background(), lg, g, uint32(k), seg, 2*seg, "out", ec, ic, sc)
	})
	if pan != "" || err != nil {
		out["err"] = fmt.Sprint(pan, err)
		return out
	}
	if p == nil || len(p.RequiredModules) == 0 {
		out["skip"] = true
		return out
	}
	keys := func(n int, each func(func(string))) []string {
		r := make([]string, 0, n)
		each(func(s string) { r = append(r, s) })
		sort.Strings(r)
		return r
	}
	out["required"] = keys(len(p.RequiredModules), func(f func(string)) {
		for n := range p.RequiredModules {
			f(n)
		}
	})
	out["toWrite"] = keys(len(p.StoresToWrite), func(f func(string)) {
		for n := range p.StoresToWrite {
			f(n)
		}
	})
	out["writers"] = keys(len(p.ExecoutWriters)+len(p.IndexWriters), func(f func(string)) {
		for n := range p.ExecoutWriters {
			f(n)
		}
		for n := range p.IndexWriters {
			if _, dup := p.ExecoutWriters[n]; !dup {
				f(n)
			}
		}
	})
	return out
}

func runJobs(a *args) error {
	setupSystem()
	root, err := os.MkdirTemp("", "vjobs-")
	if err != nil {
		return err
	}
	defer os.RemoveAll(root)
	r := rand.New(rand.NewSource(a.seed))
	variants := []int{0, 1, 4}
	if a.tier == "thorough" {
		variants = []int{0, 1, 2, 3, 4}
	}
	if a.extra == "idx" {
		variants = []int{4}
	}
	for _, variant := range variants {
		prog := jobsProg(variant)
		seg := uint64(3)
		env := newSysEnv(filepath.Join(root, fmt.Sprintf("j%d", variant)), prog)
		os.MkdirAll(env.dir, 0755)
		// stage of every module, from the real staging
		stageOf := map[string]int{}
		g, err := exec.NewOutputModuleGraph("out", true, env.mods, 0)
		if err != nil {
			return err
		}
		for si, st := range g.StagedUsedModules() {
			for _, layer := range st {
				for _, m := range layer {
					stageOf[m.Name] = si
				}
			}
		}
		nst := len(g.StagedUsedModules())
		mods := []map[string]any{}
		for _, m := range prog {
			mods = append(mods, map[string]any{"name": m.Name, "kind": m.Kind, "stage": stageOf[m.Name]})
		}
		// the clean run: production request inside segment 1, stores built to the end of segment 1
		cfg := runCfg{Prod: true, Start: int64(seg) + 1, Stop: 2*seg + 1, LibOK: true, Lib: 2 * seg, Seg: seg, Workers: 1, Label: "jobs/reference", Out: "out"}
		obs := runTier1(env, cfg, "", false)
		captureFiles(env)
		if obs.Err != "" {
			a.emit(map[string]any{"k": "jobref", "variant": variant, "err": obs.Err})
			continue
		}
		// each stage's job alone on the complete files of segment 0: shows the files (partial snapshots) that the full run
		// squashed away; they join the universe and the reference
		full := listFiles(env.dir)
		for f := range env.seen {
			full = unionFiles(full, []string{f})
		}
		for k := 0; k < nst; k++ {
			for _, f := range listFiles(env.dir) {
				os.Remove(filepath.Join(env.dir, f))
			}
			for _, f := range full {
				fr := projectFiles(env, []string{f})
				if len(fr) == 1 && fr[0].End <= seg && !strings.HasSuffix(f, ".tmp") && fr[0].Kind != "partial" {
					if b, ok := fileVault[env.dir+"|"+f]; ok {
						os.MkdirAll(filepath.Dir(filepath.Join(env.dir, f)), 0755)
						os.WriteFile(filepath.Join(env.dir, f), b, 0644)
					}
				}
			}
			guard(func() {
				jobSvc().TestProcessRange(jobCtx(env, seg), jobReq(env, seg, k, 1), func(resp substreams.ResponseFromAnyTier) error { return nil })
			})
			captureFiles(env)
		}
		ref := map[string][]byte{} // decoded (decompressed) reference content by relative name
		refStore, _ := dstore.NewStore(env.dir, "zst", "zstd", true)
		var segFiles, baseFiles []string
		all := listFiles(env.dir)
		for f := range env.seen {
			all = unionFiles(all, []string{f})
		}
		// restore everything ever seen, then read decoded contents
		keepAll := map[string]bool{}
		for _, f := range all {
			keepAll[f] = true
		}
		resetDir(env.dir, all, keepAll, rand.New(rand.NewSource(1)))
		for _, f := range listFiles(env.dir) {
			if strings.HasSuffix(f, ".tmp") {
				os.Remove(filepath.Join(env.dir, f))
			}
		}
		for _, f := range all {
			if strings.HasSuffix(f, ".tmp") {
				continue
			}
			if b, err := readAll(refStore, strings.TrimSuffix(f, ".zst")); err == nil {
				ref[f] = b
			}
		}
		for _, f := range all {
			if strings.HasSuffix(f, ".tmp") {
				continue
			}
			fr := projectFiles(env, []string{f})
			if len(fr) != 1 {
				continue
			}
			x := fr[0]
			switch {
			case x.End == 2*seg && (x.Kind == "output" || x.Kind == "kv" || x.Kind == "partial" || x.Kind == "index"):
				segFiles = append(segFiles, f)
			case x.End <= seg:
				baseFiles = append(baseFiles, f)
			}
		}
		sort.Strings(segFiles)
		a.emit(map[string]any{"k": "jobprog", "variant": variant, "mods": mods, "out": "out", "nstages": nst, "seg": seg, "segFiles": projectFiles(env, segFiles), "baseFiles": projectFiles(env, baseFiles)})
		nsub := 1 << len(segFiles)
		for k := 0; k < nst; k++ {
			for mask := 0; mask < nsub; mask++ {
				if a.tier != "thorough" && len(segFiles) > 8 && r.Intn(4) != 0 && mask != 0 && mask != nsub-1 {
					continue // quick tier: a quarter of the subsets when there are more than 256
				}
				keep := map[string]bool{}
				for _, f := range baseFiles {
					keep[f] = true
				}
				var before []string
				for i, f := range segFiles {
					if mask&(1<<i) != 0 {
						keep[f] = true
						before = append(before, f)
					}
				}
				// exact reset (no debris)
				for _, f := range listFiles(env.dir) {
					os.Remove(filepath.Join(env.dir, f))
				}
				for f := range keep {
					if b, ok := fileVault[env.dir+"|"+f]; ok {
						os.MkdirAll(filepath.Dir(filepath.Join(env.dir, f)), 0755)
						os.WriteFile(filepath.Join(env.dir, f), b, 0644)
					}
				}
				planRec := realPlan(env, g, k, seg)
				req := jobReq(env, seg, k, 1)
				svc := jobSvc()
				var jerr error
				pan := guard(func() {
					jerr = svc.TestProcessRange(jobCtx(env, seg), req, func(resp substreams.ResponseFromAnyTier) error { return nil })
				})
				es := ""
				if jerr != nil {
					es = jerr.Error()
				}
				after := []jobFile{}
				st2, _ := dstore.NewStore(env.dir, "zst", "zstd", true)
				for _, f := range listFiles(env.dir) {
					if strings.HasSuffix(f, ".tmp") {
						continue
					}
					fr := projectFiles(env, []string{f})
					if len(fr) != 1 {
						continue
					}
					jf := jobFile{Mod: fr[0].Mod, Kind: fr[0].Kind, Start: fr[0].Start, End: fr[0].End}
					if rb, ok := ref[f]; ok {
						jf.Ref = true
						if b, err := readAll(st2, strings.TrimSuffix(f, ".zst")); err == nil {
							jf.Eq = sameContent(jf.Kind, b, rb)
						}
					}
					after = append(after, jf)
				}
				a.emitNT(map[string]any{"k": "job", "variant": variant, "stage": k, "mask": mask, "before": projectFiles(env, before), "plan": planRec, "err": es, "panic": pan, "after": after}, mask != 0)
			}
		}
		os.RemoveAll(env.dir)
	}
	return nil
}
