package main

import (
	"context"
	"errors"
	"fmt"
	"math/rand"

	"connectrpc.com/connect"
	"github.com/streamingfast/bstream"
	"github.com/streamingfast/substreams/block"
	"github.com/streamingfast/substreams/orchestrator/plan"
	pbsubstreamsrpc "github.com/streamingfast/substreams/pb/sf/substreams/rpc/v2"
	pbsubstreams "github.com/streamingfast/substreams/pb/sf/substreams/v1"
	"github.com/streamingfast/substreams/pipeline"
	"github.com/streamingfast/substreams/pipeline/exec"
)

func init() { register("plan", runPlan) }

type planCfg struct {
	Prod   bool     `json:"prod"`
	Seg    uint64   `json:"seg"`
	Stores []uint64 `json:"stores"` // store initial blocks, in module-list order
	Out    uint64   `json:"out"`    // output module initial block
	Start  int64    `json:"start"`
	Stop   uint64   `json:"stop"`
	LibOK  bool     `json:"libok"` // final block known?
	Lib    uint64   `json:"lib"`
	// cursor shape ("" = none)
	CStep  string `json:"cstep"` // new undo irr newirr
	CBlock uint64 `json:"cblock"`
	CLib   uint64 `json:"clib"`
	CHead  uint64 `json:"chead"`
	// fork resolver answer: "same" (no fork), "junction" (forked, junction = RJunction), "err"
	RAns      string `json:"rans"`
	RJunction uint64 `json:"rjunction"`
}

func rangeJ(r *block.Range) []uint64 {
	if r == nil {
		return []uint64{}
	}
	return []uint64{r.StartBlock, r.ExclusiveEndBlock}
}

func codeOf(err error) string {
	if err == nil {
		return ""
	}
	var ce *connect.Error
	if errors.As(err, &ce) {
		return ce.Code().String()
	}
	return "plain"
}

func blockRef(n uint64, fork string) bstream.BlockRef {
	return bstream.NewBlockRef(fmt.Sprintf("%d%s", n, fork), n)
}

// planRecord runs the request-resolution pipeline exactly as service/tier1.go does and logs what came out.
func planRecord(c planCfg) map[string]any {
	rec := map[string]any{"k": "plan", "cfg": c, "panic": "", "err": "", "code": "", "stage": "",
		"S": 0, "H": 0, "gate": 0, "undo": []any{}, "hasCursor": false,
		"build": []uint64{}, "write": []uint64{}, "read": []uint64{}, "linear": []uint64{},
		"lowestInit": 0, "lowestStoreInit": 0, "scheduleStores": false, "accepted": false,
		"backSeg": []int{}, "storesSeg": []int{}, "writeSeg": []int{}}
	rec["panic"] = guard(func() {
		var mods []*pbsubstreams.Module
		outIn := []*pbsubstreams.Module_Input{inSource(blockType)}
		for i, ib := range c.Stores {
			n := fmt.Sprintf("s%d", i)
			mods = append(mods, storeMod(n, ib, pbsubstreams.Module_KindStore_UPDATE_POLICY_ADD, "int64", inSource(blockType)))
			outIn = append(outIn, inStore(n, false))
		}
		mods = append(mods, mapMod("out", c.Out, outIn...))
		req := &pbsubstreamsrpc.Request{StartBlockNum: c.Start, StopBlockNum: c.Stop, ProductionMode: c.Prod,
			OutputModule: "out", Modules: modules([]byte("bin"), mods...)}
		if c.CStep != "" {
			step := map[string]bstream.StepType{"new": bstream.StepNew, "undo": bstream.StepUndo, "irr": bstream.StepIrreversible,
				"newirr": bstream.StepNewIrreversible}[c.CStep]
			cur := &bstream.Cursor{Step: step, Block: blockRef(c.CBlock, "a"), LIB: blockRef(c.CLib, "a"), HeadBlock: blockRef(c.CHead, "a")}
			req.StartCursor = cur.ToOpaque()
		}
		fail := func(stage string, err error) {
			rec["stage"], rec["err"], rec["code"] = stage, err.Error(), codeOf(err)
		}
		g, err := exec.NewOutputModuleGraph("out", c.Prod, req.Modules, 0)
		if err != nil {
			fail("graph", err)
			return
		}
		lib := func() (uint64, error) {
			if !c.LibOK {
				return 0, fmt.Errorf("no final block known")
			}
			return c.Lib, nil
		}
		head := func() (uint64, error) { return c.CHead, nil }
		resolve := func(_ context.Context, cur *bstream.Cursor) (bstream.BlockRef, bstream.BlockRef, error) {
			switch c.RAns {
			case "junction":
				return blockRef(c.RJunction, "a"), blockRef(c.CHead, "a"), nil
			case "err":
				return nil, nil, fmt.Errorf("cannot resolve")
			}
			return cur.Block, blockRef(c.CHead, "a"), nil
		}
		det, undo, err := pipeline.BuildRequestDetails(context.Background(), req, lib, resolve, head, c.Seg)
		if err != nil {
			fail("details", err)
			return
		}
		rec["S"], rec["H"], rec["gate"] = det.ResolvedStartBlockNum, det.LinearHandoffBlockNum, det.LinearGateBlockNum
		rec["hasCursor"] = det.ResolvedCursor != ""
		if undo != nil {
			rec["undo"] = []any{undo.LastValidBlock.Number, undo.LastValidBlock.Id}
		}
		if det.ResolvedStartBlockNum == req.StopBlockNum && req.StopBlockNum != 0 {
			fail("startisstop", connect.NewError(connect.CodeInvalidArgument, fmt.Errorf("start block and stop block are the same")))
			return
		}
		if err := g.ValidateRequestStartBlock(det.ResolvedStartBlockNum); err != nil {
			fail("startblock", connect.NewError(connect.CodeInvalidArgument, err))
			return
		}
		sched := g.StagedUsedModules()[0].LastLayer().IsStoreLayer()
		var lsi uint64
		if sched {
			lsi = *g.LowestStoresInitBlock()
		}
		rec["lowestInit"], rec["lowestStoreInit"], rec["scheduleStores"] = g.LowestInitBlock(), lsi, sched
		p, err := plan.BuildTier1RequestPlan(det.ProductionMode, c.Seg, g.LowestInitBlock(), lsi, det.ResolvedStartBlockNum,
			det.LinearHandoffBlockNum, det.StopBlockNum, sched)
		if err != nil {
			fail("plan", err)
			return
		}
		rec["accepted"] = true
		rec["build"], rec["write"], rec["read"], rec["linear"] = rangeJ(p.BuildStores), rangeJ(p.WriteExecOut), rangeJ(p.ReadExecOut), rangeJ(p.LinearPipeline)
		// the segmenters derived from the plan: the scheduler iterates over the back-process segmenter to hand out jobs
		segJ := func(sg *block.Segmenter) []int { return []int{sg.FirstIndex(), sg.LastIndex()} }
		if p.RequiresParallelProcessing() {
			rec["backSeg"] = segJ(p.BackprocessSegmenter())
		}
		if p.BuildStores != nil {
			rec["storesSeg"] = segJ(p.StoresSegmenter())
		}
		if p.WriteExecOut != nil {
			rec["writeSeg"] = segJ(p.WriteOutSegmenter())
		}
	})
	return rec
}

func runPlan(a *args) error {
	thorough := a.tier == "thorough"
	segs := []uint64{2, 3, 5, 10}
	inits := []uint64{0, 3, 5, 12}
	outs := []uint64{0, 5, 12}
	maxStart := int64(25)
	libs := []int{-1, 0, 7, 15, 22, 35}
	if thorough {
		segs = []uint64{2, 3, 4, 5, 7, 10, 12}
		inits = []uint64{0, 3, 5, 12, 22}
		libs = []int{-1, 0, 4, 7, 15, 19, 22, 35, 60}
		maxStart = 32
	}
	// store initial-block lists: none, one, every ORDERED pair (order of the module list matters)
	storeSets := [][]uint64{{}}
	for _, i := range inits {
		storeSets = append(storeSets, []uint64{i})
	}
	for _, i := range inits {
		for _, j := range inits {
			storeSets = append(storeSets, []uint64{i, j})
		}
	}
	if thorough {
		for _, i := range inits {
			for _, j := range inits {
				for _, k := range inits {
					if i != j && j != k {
						storeSets = append(storeSets, []uint64{i, j, k})
					}
				}
			}
		}
	}
	nt := func(r map[string]any) bool {
		return r["accepted"].(bool) && len(r["build"].([]uint64))+len(r["read"].([]uint64)) > 0
	}
	for _, prod := range []bool{false, true} {
		for _, seg := range segs {
			for _, ss := range storeSets {
				for _, out := range outs {
					for start := int64(0); start <= maxStart; start++ {
						stops := []uint64{0, uint64(start) + 1, uint64(start) + 3, uint64(start) + seg, 20, 30}
						for _, stop := range stops {
							if stop != 0 && stop <= uint64(start) {
								continue // outside the stated space (stop is 0 or above start)
							}
							for _, lib := range libs {
								c := planCfg{Prod: prod, Seg: seg, Stores: ss, Out: out, Start: start, Stop: stop, LibOK: lib >= 0}
								if lib >= 0 {
									c.Lib = uint64(lib)
								}
								r := planRecord(c)
								a.emitNT(r, nt(r))
							}
						}
					}
				}
			}
		}
	}
	// cursor shapes x resolver answers
	for _, prod := range []bool{false, true} {
		for _, step := range []string{"new", "undo", "irr", "newirr"} {
			for _, cb := range []uint64{4, 9, 10, 17} {
				for _, cl := range []uint64{2, 9, 10, 17, 19} {
					if step == "irr" && cb != cl {
						continue // a pure irreversible-step cursor always designates the final block itself
					}
					for _, ans := range []string{"same", "junction", "err"} {
						for _, j := range []uint64{3, 8} {
							if j > cb {
								continue // the junction of a fork is never above the cursor's block
							}
							for _, stop := range []uint64{0, 8, 30} {
								for _, ss := range [][]uint64{{}, {0}, {5}} {
									c := planCfg{Prod: prod, Seg: 5, Stores: ss, Out: 0, Start: 0, Stop: stop, LibOK: true, Lib: 12,
										CStep: step, CBlock: cb, CLib: cl, CHead: 25, RAns: ans, RJunction: j}
									r := planRecord(c)
									a.emitNT(r, r["accepted"].(bool))
								}
							}
						}
					}
				}
			}
		}
	}
	// random configurations from the full ranges of the property text
	rr := rand.New(rand.NewSource(a.seed))
	n := 20000
	if thorough {
		n = 400000
	}
	if a.n > 0 {
		n = a.n
	}
	for i := 0; i < n; i++ {
		c := planCfg{Prod: rr.Intn(2) == 0, Seg: uint64(2 + rr.Intn(11)), Out: uint64(rr.Intn(41)), Start: int64(rr.Intn(46))}
		for k := rr.Intn(4); k > 0; k-- {
			c.Stores = append(c.Stores, uint64(rr.Intn(41)))
		}
		if c.Stores == nil {
			c.Stores = []uint64{}
		}
		if rr.Intn(4) != 0 {
			c.Stop = uint64(c.Start) + 1 + uint64(rr.Intn(50-int(c.Start)+1))
		}
		if rr.Intn(5) != 0 {
			c.LibOK, c.Lib = true, uint64(rr.Intn(61))
		}
		if rr.Intn(6) == 0 {
			c.CStep = []string{"new", "undo", "irr", "newirr"}[rr.Intn(4)]
			c.CBlock = uint64(rr.Intn(46))
			c.CLib = uint64(rr.Intn(46))
			c.CHead = c.CBlock + uint64(rr.Intn(5))
			if c.CStep == "irr" {
				c.CLib = c.CBlock
			}
			c.RAns = []string{"same", "junction", "err"}[rr.Intn(3)]
			c.RJunction = uint64(rr.Intn(int(c.CBlock) + 1))
		}
		r := planRecord(c)
		a.emitNT(r, nt(r))
	}
	return nil
}
