// vharness: conformance harness binding the TLA+ specification under /verif/spec to the real
// streamingfast/substreams code (replace => /repo). Every driver runs REAL code on generated or
// TLC-exported cases and logs what it observed as ndjson; the TLA+ trace specifications judge it.
package main

import (
	"bufio"
	"crypto/sha1"
	"encoding/json"
	"flag"
	"fmt"
	"os"
	"runtime/debug"
	"runtime/pprof"
	"sort"
	"strings"
)

type driverFunc func(a *args) error

type args struct {
	seed           int64
	tier           string
	out            string
	in             string
	n              int
	extra          string
	only           int // system driver: run only this scenario index (-1 = all)
	shardK, shardN int // system driver: run only the scenarios with index % shardN == shardK
	w              *bufio.Writer
	count          int
	nt             map[[20]byte]struct{} // distinct non-trivial records (by content hash)
	info           map[string]any        // extra summary fields
}

var drivers = map[string]driverFunc{}

func register(name string, f driverFunc) { drivers[name] = f }

// emit writes one ndjson record (map keys are sorted by encoding/json).
func (a *args) emit(rec any) {
	b, err := json.Marshal(rec)
	if err != nil {
		panic(err)
	}
	a.w.Write(b)
	a.w.WriteByte('\n')
	a.count++
}

// emitNT emits a record and counts it as distinct+non-trivial when nontrivial holds.
func (a *args) emitNT(rec any, nontrivial bool) {
	if nontrivial {
		b, _ := json.Marshal(rec)
		if a.nt == nil {
			a.nt = map[[20]byte]struct{}{}
		}
		a.nt[sha1.Sum(b)] = struct{}{}
	}
	a.emit(rec)
}

func main() {
	if len(os.Args) < 2 {
		names := []string{}
		for k := range drivers {
			names = append(names, k)
		}
		sort.Strings(names)
		fmt.Fprintf(os.Stderr, "usage: vharness <driver> [flags]; drivers: %v\n", names)
		os.Exit(2)
	}
	name := os.Args[1]
	f, ok := drivers[name]
	if !ok {
		fmt.Fprintf(os.Stderr, "unknown driver %q\n", name)
		os.Exit(2)
	}
	a := &args{}
	fs := flag.NewFlagSet(name, flag.ExitOnError)
	fs.Int64Var(&a.seed, "seed", 1, "random seed (VERIF_SEED)")
	fs.StringVar(&a.tier, "tier", "quick", "quick|thorough")
	fs.StringVar(&a.out, "out", "", "output ndjson trace")
	fs.StringVar(&a.in, "in", "", "input file (TLC export / replay)")
	fs.IntVar(&a.n, "n", 0, "number of random cases (0 = tier default)")
	fs.StringVar(&a.extra, "x", "", "driver-specific option")
	fs.IntVar(&a.only, "only", -1, "system driver: run only the scenario with this index (replay)")
	shard := fs.String("shard", "", "system driver: k/N = run only the scenarios whose index %% N == k")
	fs.Parse(os.Args[2:])
	a.shardN = 1
	if *shard != "" {
		fmt.Sscanf(*shard, "%d/%d", &a.shardK, &a.shardN)
		if a.shardN < 1 {
			a.shardN = 1
		}
	}
	if a.out == "" {
		fmt.Fprintln(os.Stderr, "-out required")
		os.Exit(2)
	}
	fh, err := os.Create(a.out)
	if err != nil {
		fmt.Fprintln(os.Stderr, err)
		os.Exit(2)
	}
	a.w = bufio.NewWriterSize(fh, 1<<20)
	if pf := os.Getenv("VERIF_PROF"); pf != "" {
		f, _ := os.Create(pf)
		pprof.StartCPUProfile(f)
		defer pprof.StopCPUProfile()
	}
	if err := f(a); err != nil {
		a.w.Flush()
		fmt.Fprintf(os.Stderr, "driver %s: %v\n", name, err)
		os.Exit(2)
	}
	a.w.Flush()
	fh.Close()
	sum := map[string]any{"driver": name, "records": a.count, "distinct_nontrivial": len(a.nt)}
	for k, v := range a.info {
		sum[k] = v
	}
	sb, _ := json.Marshal(sum)
	fmt.Println(string(sb))
}

// guard runs f and returns the panic message ("" when none).
func guard(f func()) (msg string) {
	defer func() {
		if r := recover(); r != nil {
			msg = fmt.Sprint(r)
			if msg == "" {
				msg = "panic"
			}
			if os.Getenv("VERIF_STACK") != "" {
				msg += " @ " + panicSite()
			}
		}
	}()
	f()
	return ""
}

func bytesReader(s string) *strings.Reader { return strings.NewReader(s) }

// panicSite: first frames of the panicking goroutine inside the repository (debug aid, VERIF_STACK=1)
func panicSite() string {
	st := string(debug.Stack())
	out := ""
	n := 0
	for _, line := range strings.Split(st, "\n") {
		if strings.Contains(line, "/repo/") && n < 3 {
			f := strings.TrimSpace(line)
			if i := strings.Index(f, " +0x"); i > 0 {
				f = f[:i]
			}
			out += strings.TrimPrefix(f, "/repo/") + " < "
			n++
		}
	}
	return out
}
