package main

import (
	"bufio"
	"context"
	"encoding/json"
	"errors"
	"fmt"
	"math"
	"math/rand"
	"os"
	"runtime"
	"time"

	"connectrpc.com/connect"
	"github.com/streamingfast/bstream"
	bsstream "github.com/streamingfast/bstream/stream"
	"github.com/streamingfast/dstore"
	"github.com/streamingfast/substreams"
	"github.com/streamingfast/substreams/orchestrator/plan"
	"github.com/streamingfast/substreams/orchestrator/work"
	pbssinternal "github.com/streamingfast/substreams/pb/sf/substreams/intern/v2"
	pbsubstreamsrpc "github.com/streamingfast/substreams/pb/sf/substreams/rpc/v2"
	pbsubstreams "github.com/streamingfast/substreams/pb/sf/substreams/v1"
	"github.com/streamingfast/substreams/pipeline"
	"github.com/streamingfast/substreams/pipeline/exec"
	"github.com/streamingfast/substreams/service"
	"github.com/streamingfast/substreams/service/config"
	"go.uber.org/zap"
)

func init() { register("validate", runValidate) }

type vinput struct {
	K    string `json:"k"`
	V    string `json:"v"`
	Mode int32  `json:"mode"`
}
type vmod struct {
	Name   string   `json:"name"`
	Kind   string   `json:"kind"`
	Inputs []vinput `json:"inputs"`
	Filter string   `json:"filter"`
	Init   int64    `json:"init"`
	Bin    uint32   `json:"bin"`
}
type venv struct {
	Out      string `json:"out"`
	Start    int64  `json:"start"`
	Stop     uint64 `json:"stop"`
	Cursor   string `json:"cursor"`
	Prod     bool   `json:"prod"`
	DupNames bool   `json:"dupnames"`
	NBins    int    `json:"nbins"`
	BinType  string `json:"bintype"`
	NilMods  bool   `json:"nilmods"`
	NilEntry bool   `json:"nilentry"`
}
type vreq struct {
	Mods []vmod `json:"mods"`
	Env  venv   `json:"env"`
}

// materialise builds the real request message from the abstract one.
func materialise(q vreq) *pbsubstreamsrpc.Request {
	req := &pbsubstreamsrpc.Request{StartBlockNum: q.Env.Start, StopBlockNum: q.Env.Stop, ProductionMode: q.Env.Prod, OutputModule: q.Env.Out}
	switch q.Env.Cursor {
	case "garbage":
		req.StartCursor = "!!not-a-cursor!!"
	case "wellformed":
		req.StartCursor = (&bstream.Cursor{Step: bstream.StepNew, Block: blockRef(3, "a"), LIB: blockRef(1, "a"), HeadBlock: blockRef(3, "a")}).ToOpaque()
	}
	if q.Env.NilMods {
		return req
	}
	mods := &pbsubstreams.Modules{}
	for i := 0; i < q.Env.NBins; i++ {
		mods.Binaries = append(mods.Binaries, &pbsubstreams.Binary{Type: q.Env.BinType, Content: []byte(fmt.Sprintf("bin%d", i))})
	}
	for _, m := range q.Mods {
		pm := &pbsubstreams.Module{Name: m.Name, BinaryIndex: m.Bin, BinaryEntrypoint: m.Name}
		if m.Init == -2 {
			pm.InitialBlock = math.MaxUint64 // also manifest.UNSET, the unresolved-initial-block marker
		} else if m.Init < 0 {
			pm.InitialBlock = 1 << 63
		} else {
			pm.InitialBlock = uint64(m.Init)
		}
		switch m.Kind {
		case "map":
			pm.Kind = &pbsubstreams.Module_KindMap_{KindMap: &pbsubstreams.Module_KindMap{OutputType: "proto:x"}}
		case "store":
			pm.Kind = &pbsubstreams.Module_KindStore_{KindStore: &pbsubstreams.Module_KindStore{UpdatePolicy: pbsubstreams.Module_KindStore_UPDATE_POLICY_SET, ValueType: "string"}}
		case "index":
			pm.Kind = &pbsubstreams.Module_KindBlockIndex_{KindBlockIndex: &pbsubstreams.Module_KindBlockIndex{OutputType: "proto:sf.substreams.index.v1.Keys"}}
		}
		ref := func(v string) string {
			if v == "self" {
				return m.Name
			}
			return v
		}
		for _, in := range m.Inputs {
			switch in.K {
			case "source":
				t := in.V
				if t == "blk" {
					t = blockType
				}
				pm.Inputs = append(pm.Inputs, inSource(t))
			case "params":
				pm.Inputs = append(pm.Inputs, inParams(in.V))
			case "map":
				pm.Inputs = append(pm.Inputs, inMap(ref(in.V)))
			case "store":
				pm.Inputs = append(pm.Inputs, &pbsubstreams.Module_Input{Input: &pbsubstreams.Module_Input_Store_{Store: &pbsubstreams.Module_Input_Store{ModuleName: ref(in.V), Mode: pbsubstreams.Module_Input_Store_Mode(in.Mode)}}})
			case "absent":
				pm.Inputs = append(pm.Inputs, &pbsubstreams.Module_Input{})
			case "nilsource":
				pm.Inputs = append(pm.Inputs, &pbsubstreams.Module_Input{Input: &pbsubstreams.Module_Input_Source_{}})
			case "nilmap":
				pm.Inputs = append(pm.Inputs, &pbsubstreams.Module_Input{Input: &pbsubstreams.Module_Input_Map_{}})
			case "nilstore":
				pm.Inputs = append(pm.Inputs, &pbsubstreams.Module_Input{Input: &pbsubstreams.Module_Input_Store_{}})
			case "nilparams":
				pm.Inputs = append(pm.Inputs, &pbsubstreams.Module_Input{Input: &pbsubstreams.Module_Input_Params_{}})
			}
		}
		switch m.Filter {
		case "none":
		case "noquery_a":
			pm.BlockFilter = &pbsubstreams.Module_BlockFilter{Module: "a"}
		case "noquery_zz": // no query AND a dangling module reference (seed C17r5a)
			pm.BlockFilter = &pbsubstreams.Module_BlockFilter{Module: "zz"}
		case "nilquery_b":
			pm.BlockFilter = &pbsubstreams.Module_BlockFilter{Module: "b", Query: &pbsubstreams.Module_BlockFilter_QueryString{}}
		default:
			pm.BlockFilter = &pbsubstreams.Module_BlockFilter{Module: ref(m.Filter), Query: &pbsubstreams.Module_BlockFilter_QueryString{QueryString: "k"}}
		}
		mods.Modules = append(mods.Modules, pm)
	}
	if q.Env.DupNames && len(mods.Modules) > 1 {
		mods.Modules[1].Name = mods.Modules[0].Name
	}
	if q.Env.NilEntry {
		mods.Modules = append(mods.Modules, nil)
	}
	req.Modules = mods
	return req
}

// codeLikeTier1: the code a tier1 client would see.  Errors returned by Tier1Service.blocks() go through the REAL
// service.toConnectError (verif hook), exactly as Tier1Service.Blocks does; the three early returns of Blocks (missing
// modules, request validation, graph construction) are returned by Blocks as they are: `direct` reproduces that.
func codeLikeTier1(err error, direct bool) string {
	if err == nil {
		return ""
	}
	if direct {
		var ia *bsstream.ErrInvalidArg
		if errors.As(err, &ia) {
			return "invalid_argument" // an ErrInvalidArg is the invalid-argument class of the firehose/substreams servers
		}
		return connect.CodeOf(err).String()
	}
	mapped := service.VerifToConnectError(context.Background(), err)
	return connect.CodeOf(mapped).String()
}

type voutcome struct {
	Stage  string `json:"stage"` // validate graph details startisstop startblock plan accepted
	Err    string `json:"err"`
	Code   string `json:"code"`
	Panic  string `json:"panic"`
	Hung   bool   `json:"hung"`
	HeapMB uint64 `json:"heapMB"`
	// what the REAL Tier1Service entry point (TestBlocks = graph construction + blocks(), mapped by the real toConnectError)
	// answers for a request this step sequence rejects after the graph stage ("" = not asked)
	RealCode  string `json:"realCode"`
	RealPanic string `json:"realPanic"`
}

// tier1Steps: the request pipeline in tier1's order and with tier1's error wrapping.
func tier1Steps(req *pbsubstreamsrpc.Request) (o voutcome) {
	fail := func(stage string, err error) voutcome {
		return voutcome{Stage: stage, Err: err.Error(), Code: codeLikeTier1(err, stage == "validate" || stage == "graph")}
	}
	if req.Modules == nil {
		return fail("validate", connect.NewError(connect.CodeInvalidArgument, fmt.Errorf("missing modules in request")))
	}
	if err := service.ValidateTier1Request(req, blockType); err != nil {
		return fail("validate", connect.NewError(connect.CodeInvalidArgument, fmt.Errorf("validate request: %w", err)))
	}
	g, err := exec.NewOutputModuleGraph(req.OutputModule, req.ProductionMode, req.Modules, 0)
	if err != nil {
		return fail("graph", bsstream.NewErrInvalidArg(err.Error()))
	}
	lib := func() (uint64, error) { return 12, nil }
	head := func() (uint64, error) { return 20, nil }
	resolve := func(_ context.Context, cur *bstream.Cursor) (bstream.BlockRef, bstream.BlockRef, error) {
		return cur.Block, blockRef(20, "a"), nil
	}
	det, _, err := pipeline.BuildRequestDetails(context.Background(), req, lib, resolve, head, 10)
	if err != nil {
		return fail("details", fmt.Errorf("build request details: %w", err))
	}
	if det.ResolvedStartBlockNum == req.StopBlockNum && req.StopBlockNum != 0 {
		return fail("startisstop", bsstream.NewErrInvalidArg("start block and stop block are the same"))
	}
	if err := g.ValidateRequestStartBlock(det.ResolvedStartBlockNum); err != nil {
		return fail("startblock", bsstream.NewErrInvalidArg(err.Error()))
	}
	sched := g.StagedUsedModules()[0].LastLayer().IsStoreLayer()
	var lsi uint64
	if sched {
		lsi = *g.LowestStoresInitBlock()
	}
	if _, err := plan.BuildTier1RequestPlan(det.ProductionMode, 10, g.LowestInitBlock(), lsi, det.ResolvedStartBlockNum, det.LinearHandoffBlockNum, det.StopBlockNum, sched); err != nil {
		// TODO(real glue): mirrors Tier1Service.blocks(); replaced by the real call once the in-process service is wired
		return fail("plan", bsstream.NewErrInvalidArg("error building request plan: %s", err))
	}
	return voutcome{Stage: "accepted"}
}

var realSvc *service.Tier1Service

// realTier1: the same request through the real in-process tier1 entry point. Only asked for requests without a start cursor
// (the test constructor of the service has no cursor resolver) that the step sequence rejects at or after request resolution.
func realTier1(req *pbsubstreamsrpc.Request) (code, pan string) {
	if realSvc == nil {
		dir, _ := os.MkdirTemp("", "vval-")
		base, _ := dstore.NewStore(dir, "zst", "zstd", true)
		rc := config.RuntimeConfig{SegmentSize: 10, DefaultParallelSubrequests: 1, BaseObjectStore: base, DefaultCacheTag: "tag", MaxJobsAhead: 10,
			WorkerFactory: func(*zap.Logger) work.Worker { return nil }}
		realSvc = service.TestNewService(rc, 12, func(ctx context.Context, h bstream.Handler, start int64, stop uint64, _ string, _ bool, _ bool, _ *zap.Logger, _ ...bsstream.Option) (service.Streamable, error) {
			return nil, fmt.Errorf("verif: request reached execution")
		})
	}
	var err error
	ctx, cancel := context.WithTimeout(context.Background(), 2*time.Second)
	defer cancel()
	pan = guard(func() {
		err = realSvc.TestBlocks(ctx, false, req, func(substreams.ResponseFromAnyTier) error { return nil })
	})
	if pan != "" {
		return "", pan
	}
	if err == nil {
		return "ok", ""
	}
	var ia *bsstream.ErrInvalidArg
	if errors.As(err, &ia) {
		return "invalid_argument", ""
	}
	return connect.CodeOf(service.VerifToConnectError(context.Background(), err)).String(), ""
}

func tier2Steps(req *pbsubstreamsrpc.Request, stage uint32) (o voutcome) {
	r2 := &pbssinternal.ProcessRangeRequest{OutputModule: req.OutputModule, Modules: req.Modules, Stage: stage, MeteringConfig: "null://",
		SegmentSize: 10, SegmentNumber: 1, BlockType: blockType, StateStore: "/tmp/x", MergedBlocksStore: "/tmp/y"}
	if err := service.ValidateTier2Request(r2); err != nil {
		e := connect.NewError(connect.CodeInvalidArgument, fmt.Errorf("validate request: %w", err))
		return voutcome{Stage: "validate", Err: e.Error(), Code: codeLikeTier1(e, true)}
	}
	if _, err := exec.NewOutputModuleGraph(r2.OutputModule, true, r2.Modules, r2.FirstStreamableBlock); err != nil {
		e := bsstream.NewErrInvalidArg(err.Error())
		return voutcome{Stage: "graph", Err: e.Error(), Code: codeLikeTier1(e, true)}
	}
	return voutcome{Stage: "accepted"}
}

var hangs int

func watched(f func() voutcome) voutcome {
	done := make(chan voutcome, 1)
	go func() {
		var o voutcome
		p := guard(func() { o = f() })
		if p != "" {
			o = voutcome{Stage: "crashed", Panic: p}
		}
		done <- o
	}()
	select {
	case o := <-done:
		var ms runtime.MemStats
		if rand.Intn(200) == 0 {
			runtime.ReadMemStats(&ms)
			o.HeapMB = ms.HeapAlloc >> 20
		}
		return o
	case <-time.After(2 * time.Second):
		hangs++
		return voutcome{Stage: "hung", Hung: true}
	}
}

func runValidate(a *args) error {
	setupSystem() // registers the verifvm module runtime (SUBSTREAMS_WASM_RUNTIME names it)
	if a.in == "" {
		return fmt.Errorf("-in <TLC export> required")
	}
	fh, err := os.Open(a.in)
	if err != nil {
		return err
	}
	defer fh.Close()
	sc := bufio.NewScanner(fh)
	sc.Buffer(make([]byte, 1<<20), 1<<24)
	for sc.Scan() {
		var inner string
		if err := json.Unmarshal(sc.Bytes(), &inner); err != nil {
			return fmt.Errorf("export line: %w", err)
		}
		var q vreq
		if err := json.Unmarshal([]byte(inner), &q); err != nil {
			return fmt.Errorf("export record: %w", err)
		}
		o1 := watched(func() voutcome {
			rq := materialise(q)
			o := tier1Steps(rq)
			if rq != nil && rq.StartCursor == "" && (o.Stage == "details" || o.Stage == "startisstop" || o.Stage == "startblock" || o.Stage == "plan") {
				o.RealCode, o.RealPanic = realTier1(rq)
			}
			return o
		})
		o2 := watched(func() voutcome { return tier2Steps(materialise(q), 0) })
		a.emitNT(map[string]any{"k": "req", "req": q, "tier1": o1, "tier2": o2}, o1.Stage != "validate")
		if hangs >= 4 {
			a.info = map[string]any{"stopped_after_hangs": hangs}
			break // each hang leaves a spinning goroutine behind
		}
	}
	// large random requests: up to 100 modules / 30 inputs
	r := rand.New(rand.NewSource(a.seed))
	n := 300
	if a.tier == "thorough" {
		n = 150000
	}
	for i := 0; i < n && hangs < 4; i++ {
		q := vreq{Env: venv{Out: "m0", Stop: 50, NBins: 1, BinType: "wasm/rust-v1", Prod: r.Intn(2) == 0}}
		nm := 1 + r.Intn(100)
		if r.Intn(10) == 0 {
			nm = 101 + r.Intn(5)
		}
		for j := 0; j < nm; j++ {
			m := vmod{Name: fmt.Sprintf("m%d", j), Kind: []string{"map", "map", "store", "index", "absent"}[r.Intn(5)], Filter: "none", Bin: uint32(r.Intn(2))}
			for k := r.Intn(32); k >= 0; k-- {
				tgt := fmt.Sprintf("m%d", r.Intn(nm))
				switch r.Intn(5) {
				case 0:
					m.Inputs = append(m.Inputs, vinput{K: "source", V: "blk"})
				case 1:
					m.Inputs = append(m.Inputs, vinput{K: "map", V: tgt})
				case 2:
					m.Inputs = append(m.Inputs, vinput{K: "store", V: tgt, Mode: int32(1 + r.Intn(2))})
				case 3:
					m.Inputs = append(m.Inputs, vinput{K: "params", V: "p"})
				default:
					m.Inputs = append(m.Inputs, vinput{K: []string{"absent", "nilsource", "nilmap"}[r.Intn(3)]})
				}
			}
			q.Mods = append(q.Mods, m)
		}
		o1 := watched(func() voutcome {
			rq := materialise(q)
			o := tier1Steps(rq)
			if rq != nil && rq.StartCursor == "" && (o.Stage == "details" || o.Stage == "startisstop" || o.Stage == "startblock" || o.Stage == "plan") {
				o.RealCode, o.RealPanic = realTier1(rq)
			}
			return o
		})
		small := vreq{Env: q.Env, Mods: q.Mods[:1]} // log only the head of big requests
		a.emitNT(map[string]any{"k": "bigreq", "req": small, "nmods": nm, "tier1": o1, "tier2": voutcome{Stage: "skipped", Code: "invalid_argument"}}, o1.Stage != "validate")
	}
	return nil
}
