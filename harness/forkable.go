package main

import (
	"fmt"

	"github.com/streamingfast/bstream"
	"github.com/streamingfast/bstream/forkable"
	pbbstream "github.com/streamingfast/bstream/pb/sf/bstream/v1"
)

// forkableNew wraps the REAL bstream/forkable fork resolver (as the repository's ForkBlockGenerator does): blocks go in
// in arrival order, steps (new / undo / irreversible / stalled) with cursors and junction blocks come out.
func forkableNew(initialLIB bstream.BlockRef, emit func(blk *pbbstream.Block, step bstream.StepType, cur *bstream.Cursor, junction bstream.BlockRef)) func(*pbbstream.Block) {
	fk := forkable.New(bstream.HandlerFunc(func(blk *pbbstream.Block, obj interface{}) error {
		fo := obj.(*forkable.ForkableObject)
		emit(blk, fo.Step(), fo.Cursor(), fo.ReorgJunctionBlock())
		return nil
	}), forkable.HoldBlocksUntilLIB(), forkable.WithWarnOnUnlinkableBlocks(100), forkable.WithInclusiveLIB(initialLIB))
	return func(blk *pbbstream.Block) {
		if err := fk.ProcessBlock(blk, nil); err != nil {
			panic(fmt.Sprintf("forkable: %v", err))
		}
	}
}
