package main

import (
	"context"
	"encoding/json"
	"errors"
	"fmt"
	"io"
	"math/rand"
	"os"
	"path/filepath"
	"sort"
	"strconv"
	"strings"
	"sync"
	"sync/atomic"
	"time"

	"connectrpc.com/connect"
	"github.com/streamingfast/bstream"
	pbbstream "github.com/streamingfast/bstream/pb/sf/bstream/v1"
	bsstream "github.com/streamingfast/bstream/stream"
	"github.com/streamingfast/dmetering"
	"github.com/streamingfast/dstore"
	"github.com/streamingfast/substreams"
	"github.com/streamingfast/substreams/orchestrator"
	orchexecout "github.com/streamingfast/substreams/orchestrator/execout"
	"github.com/streamingfast/substreams/orchestrator/loop"
	"github.com/streamingfast/substreams/orchestrator/response"
	"github.com/streamingfast/substreams/orchestrator/scheduler"
	"github.com/streamingfast/substreams/orchestrator/stage"
	"github.com/streamingfast/substreams/orchestrator/work"
	pbindex "github.com/streamingfast/substreams/pb/sf/substreams/index/v1"
	pbsubstreamsrpc "github.com/streamingfast/substreams/pb/sf/substreams/rpc/v2"
	pbsubstreams "github.com/streamingfast/substreams/pb/sf/substreams/v1"
	pbsubstreamstest "github.com/streamingfast/substreams/pb/sf/substreams/v1/test"
	"github.com/streamingfast/substreams/pipeline"
	"github.com/streamingfast/substreams/pipeline/exec"
	"github.com/streamingfast/substreams/reqctx"
	"github.com/streamingfast/substreams/service"
	"github.com/streamingfast/substreams/service/config"
	"github.com/streamingfast/substreams/sqe"
	"github.com/streamingfast/substreams/storage/store"
	"go.uber.org/zap"
	"google.golang.org/protobuf/proto"
	"google.golang.org/protobuf/types/known/anypb"
	"google.golang.org/protobuf/types/known/timestamppb"
)

// ------------------------------------------------------------------ programs

type sysMod struct {
	Name   string   `json:"name"`
	Kind   string   `json:"kind"`
	Init   uint64   `json:"init"`
	Inputs []ainput `json:"inputs"`
	Filter []any    `json:"filter"` // [] or [index module, AST of the query as parsed by the real sqe.Parse]
	Query  string   `json:"query"`
	Body   vbody    `json:"body"`
}

type sysProg []sysMod

func (p sysProg) polOf(name string) (polSpec, string) {
	for _, m := range p {
		if m.Name == name {
			for _, ps := range polSpecs {
				if ps.name == m.Body.Pol {
					return ps, m.Body.VT
				}
			}
		}
	}
	return polSpec{}, ""
}

func (p sysProg) modules() *pbsubstreams.Modules {
	bodies := map[string]vbody{}
	for _, m := range p {
		bodies[m.Name] = m.Body
	}
	bin, _ := json.Marshal(bodies)
	out := &pbsubstreams.Modules{Binaries: []*pbsubstreams.Binary{{Type: "wasm/rust-v1", Content: bin}}}
	for _, m := range p {
		var ins []*pbsubstreams.Module_Input
		for _, in := range m.Inputs {
			switch in.K {
			case "source":
				ins = append(ins, inSource(in.V))
			case "params":
				ins = append(ins, inParams(in.V))
			case "map":
				ins = append(ins, inMap(in.V))
			case "store":
				ins = append(ins, inStore(in.V, in.Mode == "deltas"))
			}
		}
		var pm *pbsubstreams.Module
		switch m.Kind {
		case "map":
			pm = mapMod(m.Name, m.Init, ins...)
		case "index":
			pm = indexMod(m.Name, m.Init, ins...)
		case "store":
			ps, vt := p.polOf(m.Name)
			pm = storeMod(m.Name, m.Init, ps.policy, vt, ins...)
		}
		if m.Query != "" {
			pm.BlockFilter = &pbsubstreams.Module_BlockFilter{Module: m.Filter[0].(string), Query: &pbsubstreams.Module_BlockFilter_QueryString{QueryString: m.Query}}
		}
		out.Modules = append(out.Modules, pm)
	}
	return out
}

func always() vwhen { return vwhen{Mod: 0, Res: []uint64{}} }
func whenMod(m uint64, res ...uint64) vwhen {
	return vwhen{Mod: m, Res: res}
}

func randWhen(r *rand.Rand) vwhen {
	switch r.Intn(4) {
	case 0:
		return whenMod(2, uint64(r.Intn(2)))
	case 1:
		return whenMod(3, uint64(r.Intn(3)))
	case 2:
		return whenMod(5, 1, 3)
	}
	return always()
}

// randProg: source mapper -> store (any policy) [-> second store] -> output mapper, optional block index + filter,
// optional clock-only / params-only store; differing initial blocks.
func randProg(r *rand.Rand) sysProg {
	var p sysProg
	inits := []uint64{0, 0, 0, 3, 4, 7, 12}
	body0 := func(kind string) vbody {
		return vbody{Kind: kind, Emit: always(), FailAt: -1, Terms: []vterm{}, Ops: []vop{}, Keys: []vkey{}}
	}
	src := sysMod{Name: "m_src", Kind: "map", Init: inits[r.Intn(4)], Inputs: []ainput{{K: "source", V: blockType}}, Filter: []any{}}
	src.Body = body0("map")
	src.Body.Terms = []vterm{{T: "num", C: int64(1 + r.Intn(3))}, {T: "branch", C: 100}, {T: "const", C: int64(r.Intn(5))}}
	src.Body.Emit = randWhen(r)
	src.Body.SkipEmpty = r.Intn(2) == 0
	p = append(p, src)

	hasIdx := r.Intn(3) == 0
	if hasIdx {
		idx := sysMod{Name: "idx", Kind: "index", Init: 0, Inputs: []ainput{{K: "source", V: blockType}}, Filter: []any{}}
		idx.Body = body0("index")
		idx.Body.Keys = []vkey{{Key: "even", When: whenMod(2, 0)}, {Key: "t3", When: whenMod(3, 0)}, {Key: "rare", When: whenMod(7, 5)}}
		p = append(p, idx)
	}
	replaySensitive := r.Intn(3) == 0 // store operations that often change nothing + a deltas reader (cached operation-log replay)
	mkStore := func(name string, inputs []ainput, valTerms []vterm) sysMod {
		ps := polSpecs[r.Intn(len(polSpecs))]
		if replaySensitive && name == "st1" {
			ps = polSpecs[1] // set_if_not_exists: most writes hit an existing key and produce no delta
		}
		vt := ps.vts[r.Intn(len(ps.vts))]
		m := sysMod{Name: name, Kind: "store", Init: inits[r.Intn(len(inits))], Inputs: inputs, Filter: []any{}}
		if inputs[0].K == "map" && m.Init < src.Init {
			m.Init = src.Init // a module needs at least one input that exists at its initial block
		}
		m.Body = body0("store")
		m.Body.Pol, m.Body.VT = ps.name, vt
		nops := 1 + r.Intn(2)
		for i := 0; i < nops; i++ {
			o := vop{Op: "w", Ord: uint64(r.Intn(3)), Base: uint64(r.Intn(4)), Step: uint64(r.Intn(3)), Val: valTerms, When: randWhen(r)}
			if ps.name == "set_sum" {
				o.Tag = []string{"set", "sum", "sum"}[r.Intn(3)]
			}
			m.Body.Ops = append(m.Body.Ops, o)
		}
		if r.Intn(3) == 0 || (replaySensitive && name == "st1") {
			m.Body.Ops = append(m.Body.Ops, vop{Op: "del", Ord: uint64(r.Intn(3)), Pfx: []string{"a", "ab", "b", ""}[r.Intn(4)], Val: []vterm{}, When: whenMod(7, uint64(r.Intn(7)))})
		}
		return m
	}
	var st1 sysMod
	switch r.Intn(7) {
	case 6: // store fed by the block source itself
		st1 = mkStore("st1", []ainput{{K: "source", V: blockType}}, []vterm{{T: "num", C: 1}, {T: "branch", C: 50}, {T: "const", C: 2}})
	case 0: // clock-only store
		st1 = mkStore("st1", []ainput{{K: "source", V: "sf.substreams.v1.Clock"}}, []vterm{{T: "num", C: 1}, {T: "const", C: 1}})
	case 1: // params-only store
		st1 = mkStore("st1", []ainput{{K: "params", V: "p=1"}}, []vterm{{T: "num", C: 2}})
	default:
		st1 = mkStore("st1", []ainput{{K: "map", V: "m_src"}}, []vterm{{T: "in", I: 0, C: 1}, {T: "const", C: 1}})
	}
	p = append(p, st1)
	num1 := isNumeric(st1.Body.Pol)
	has2 := r.Intn(2) == 0
	var st2 sysMod
	if has2 {
		mode := []string{"get", "deltas", "none"}[r.Intn(3)]
		var vt []vterm
		if mode == "none" { // independent of st1: both stores are in the SAME stage
			st2 = mkStore("st2", []ainput{{K: "map", V: "m_src"}}, []vterm{{T: "in", I: 0, C: 2}, {T: "const", C: 3}})
			p = append(p, st2)
		} else if mode == "get" {
			vt = []vterm{{T: "get", I: 1, C: 1, Key: vmKeys[r.Intn(4)], How: "last", Num: num1}, {T: "in", I: 0, C: 1}, {T: "const", C: 1}}
		} else {
			vt = []vterm{{T: "dcount", I: 1, C: 1}, {T: "dsum", I: 1, C: 1, Num: num1}, {T: "in", I: 0, C: 1}}
		}
		if mode != "none" {
			st2 = mkStore("st2", []ainput{{K: "map", V: "m_src"}, {K: "store", V: "st1", Mode: mode}}, vt)
			p = append(p, st2)
		}
	}
	// optional third store chained on the second one (a fourth stage: store -> store -> store -> mapper)
	has3 := has2 && len(st2.Inputs) == 2 && r.Intn(3) == 0
	var st3 sysMod
	if has3 {
		mode := []string{"get", "deltas"}[r.Intn(2)]
		num2 := isNumeric(st2.Body.Pol)
		var vt []vterm
		if mode == "get" {
			vt = []vterm{{T: "get", I: 1, C: 1, Key: vmKeys[r.Intn(4)], How: "last", Num: num2}, {T: "in", I: 0, C: 1}, {T: "const", C: 2}}
		} else {
			vt = []vterm{{T: "dcount", I: 1, C: 1}, {T: "dsum", I: 1, C: 1, Num: num2}, {T: "in", I: 0, C: 1}}
		}
		st3 = mkStore("st3", []ainput{{K: "map", V: "m_src"}, {K: "store", V: "st2", Mode: mode}}, vt)
		p = append(p, st3)
	}
	out := sysMod{Name: "out", Kind: "map", Init: []uint64{0, 0, 3, 5, 12}[r.Intn(5)], Filter: []any{}}
	out.Body = body0("map")
	out.Inputs = []ainput{{K: "map", V: "m_src"}}
	out.Body.Terms = []vterm{{T: "in", I: 0, C: 1}}
	if r.Intn(4) == 0 {
		out.Inputs = []ainput{{K: "source", V: blockType}}
		out.Body.Terms = []vterm{{T: "num", C: 1000}, {T: "branch", C: 7}}
	}
	if out.Inputs[0].K == "map" && out.Init < src.Init {
		out.Init = src.Init
	}
	pos := len(out.Inputs)
	mode1 := []string{"get", "get", "deltas"}[r.Intn(3)]
	if replaySensitive {
		mode1 = "deltas"
	}
	out.Inputs = append(out.Inputs, ainput{K: "store", V: "st1", Mode: mode1})
	if mode1 == "get" {
		how := []string{"last", "first", "at"}[r.Intn(3)]
		out.Body.Terms = append(out.Body.Terms, vterm{T: "get", I: pos, C: 10, Key: vmKeys[r.Intn(4)], How: how, Ord: uint64(r.Intn(3)), Num: num1},
			vterm{T: "has", I: pos, C: 100000, Key: vmKeys[r.Intn(4)], How: []string{"last", "first", "at"}[r.Intn(3)], Ord: uint64(r.Intn(3))},
			vterm{T: "get", I: pos, C: 1, Key: vmKeys[r.Intn(4)], How: "last", Num: num1})
	} else {
		out.Body.Terms = append(out.Body.Terms, vterm{T: "dcount", I: pos, C: 1000}, vterm{T: "dsum", I: pos, C: 1, Num: num1})
	}
	if has2 {
		pos2 := len(out.Inputs)
		out.Inputs = append(out.Inputs, ainput{K: "store", V: "st2", Mode: "get"})
		out.Body.Terms = append(out.Body.Terms, vterm{T: "get", I: pos2, C: 3, Key: vmKeys[r.Intn(4)], How: "last", Num: isNumeric(st2.Body.Pol)})
	}
	if has3 {
		pos3 := len(out.Inputs)
		out.Inputs = append(out.Inputs, ainput{K: "store", V: "st3", Mode: "get"})
		out.Body.Terms = append(out.Body.Terms, vterm{T: "get", I: pos3, C: 7, Key: vmKeys[r.Intn(4)], How: "last", Num: isNumeric(st3.Body.Pol)})
	}
	out.Body.Emit = randWhen(r)
	out.Body.SkipEmpty = r.Intn(2) == 0
	// a second block-filtered mapper on the same index (the two filters often share a key), with its own initial block
	if hasIdx && r.Intn(2) == 0 {
		f2 := sysMod{Name: "m_f2", Kind: "map", Init: []uint64{0, 3, 4, 7, 12}[r.Intn(5)], Inputs: []ainput{{K: "source", V: blockType}}, Filter: []any{}}
		f2.Body = body0("map")
		f2.Body.Terms = []vterm{{T: "num", C: 3}, {T: "const", C: 1}}
		f2.Query = []string{"even", "even", "t3", "'even'", "(even)"}[r.Intn(5)]
		if e, err := sqe.Parse(context.Background(), f2.Query); err == nil {
			f2.Filter = []any{"idx", astJSON(e)}
			p = append(p, f2)
			posf := len(out.Inputs)
			out.Inputs = append(out.Inputs, ainput{K: "map", V: "m_f2"})
			out.Body.Terms = append(out.Body.Terms, vterm{T: "in", I: posf, C: 100})
		}
	}
	if hasIdx && r.Intn(2) == 0 {
		out.Query = []string{"even", "even || t3", "t3 even", "(rare || even) t3", "rare"}[r.Intn(5)]
		if e, err := sqe.Parse(context.Background(), out.Query); err == nil {
			out.Filter = []any{"idx", astJSON(e)}
		} else {
			out.Query = ""
		}
	}
	p = append(p, out)
	// the order of the module list is free as long as dependencies come first: shuffle independent neighbours, so that a
	// later-starting module can stand before an earlier-starting one in the same execution layer
	if r.Intn(2) == 0 {
		dependsOn := func(b, a sysMod) bool {
			for _, in := range b.Inputs {
				if (in.K == "map" || in.K == "store") && in.V == a.Name {
					return true
				}
			}
			return len(b.Filter) == 2 && b.Filter[0] == a.Name
		}
		for k := 0; k < 2*len(p); k++ {
			i := r.Intn(len(p) - 1)
			if i+1 < len(p)-1 && !dependsOn(p[i+1], p[i]) { // the output module stays last
				p[i], p[i+1] = p[i+1], p[i]
			}
		}
	}
	return p
}

// ------------------------------------------------------------------ chain source

type chainBlock struct {
	Num    uint64 `json:"num"`
	ID     string `json:"id"`
	Parent string `json:"parent"`
	Lib    uint64 `json:"lib"`
}

type stepObj struct {
	cursor   *bstream.Cursor
	step     bstream.StepType
	junction bstream.BlockRef
}

func (o *stepObj) Cursor() *bstream.Cursor              { return o.cursor }
func (o *stepObj) Step() bstream.StepType               { return o.step }
func (o *stepObj) FinalBlockHeight() uint64             { return o.cursor.LIB.Num() }
func (o *stepObj) ReorgJunctionBlock() bstream.BlockRef { return o.junction }

func mkBlock(num uint64, id, parent string, lib uint64) *pbbstream.Block {
	anyBlock, _ := anypb.New(&pbsubstreamstest.Block{Id: id, Number: num})
	return &pbbstream.Block{Id: id, Number: num, ParentId: parent, Timestamp: timestamppb.New(time.Unix(int64(1600000000+num), 0)), LibNum: lib, Payload: anyBlock}
}

func finalID(n uint64) string { return strconv.FormatUint(n, 10) + "a" }

// linearStream feeds the final chain [start, stop) as new+irreversible steps, like the repository's LinearBlockGenerator.
type linearStream struct {
	h          bstream.Handler
	start, end uint64
	bareFinal  bool // emit StepIrreversible (as the live hub does behind the final-blocks filter) instead of new+irreversible
	onBlock    func(p *pipeline.Pipeline, num uint64, id string)
}

func pipeOf(h bstream.Handler) *pipeline.Pipeline {
	if lb, ok := h.(*service.LiveBackFiller); ok {
		if p, ok := lb.NextHandler.(*pipeline.Pipeline); ok {
			return p
		}
	}
	if p, ok := h.(*pipeline.Pipeline); ok {
		return p
	}
	return nil
}

func (s *linearStream) Run(ctx context.Context) error {
	for n := s.start; n < s.end+3; n++ { // a few blocks past the stop block: the pipeline must stop by itself
		lib := uint64(0)
		if n > 0 {
			lib = n - 1
		}
		blk := mkBlock(n, finalID(n), finalID(lib), lib)
		ref := bstream.NewBlockRef(blk.Id, n)
		// a block that is new AND final: its cursor designates itself as the last final block (what the file source emits)
		obj := &stepObj{step: bstream.StepNewIrreversible, cursor: &bstream.Cursor{Step: bstream.StepNewIrreversible, Block: ref, LIB: ref, HeadBlock: ref}}
		if s.bareFinal {
			obj = &stepObj{step: bstream.StepIrreversible, cursor: &bstream.Cursor{Step: bstream.StepIrreversible, Block: ref, LIB: ref, HeadBlock: ref}}
		}
		if err := s.h.ProcessBlock(blk, obj); err != nil {
			if errors.Is(err, io.EOF) {
				return io.EOF
			}
			return fmt.Errorf("process block %d: %w", n, err)
		}
		if s.onBlock != nil {
			s.onBlock(pipeOf(s.h), n, blk.Id)
		}
	}
	return io.EOF
}

// ------------------------------------------------------------------ one tier1 request, in process

type runCfg struct {
	Prod        bool   `json:"prod"`
	Start       int64  `json:"start"`
	Stop        uint64 `json:"stop"`
	LibOK       bool   `json:"libok"`
	Lib         uint64 `json:"lib"`
	Seg         uint64 `json:"seg"`
	Workers     int    `json:"workers"`
	Order       int64  `json:"order"`  // seed of the job completion order (0 = as they come)
	Cursor      string `json:"cursor"` // "" or "resume:<index of the delivered block whose cursor is used>"
	Label       string `json:"label"`
	Final       bool   `json:"finalonly"`   // final_blocks_only request; the source then emits bare irreversible steps
	Out         string `json:"outmod"`      // output module ("out" unless stated)
	CancelAfter int    `json:"cancelafter"` // the harness cancels the request once the scheduler has handled this many messages (0 = never)
	Plain       bool   `json:"plain"`       // run without per-request hooks (several requests at once on one cache)
	WalkHold    int    `json:"walkhold"`    // a walker attempt that found no file is reported after this many scheduler messages
	MergeHold   int    `json:"mergehold"`   // merges wait for this many scheduler messages (0 = as fast as they go)
}

type respRec struct {
	Kind    string   `json:"kind"` // data undo session
	Num     uint64   `json:"num"`
	ID      string   `json:"id"`
	Payload []int    `json:"payload"` // [] empty, [v] value
	Keys    []string `json:"keys"`    // output of a block-index module requested as output module: its keys
	CurNum  uint64   `json:"curnum"`
	CurID   string   `json:"curid"`
	Final   uint64   `json:"final"`
	cursor  string
	Unparse bool `json:"unparsed"`
}

type runObs struct {
	Resp     []respRec                 `json:"resp"`
	Err      string                    `json:"err"`
	Code     string                    `json:"code"`
	Stores   map[string]map[string]any `json:"stores"` // store map at the end of the linear phase (typed)
	HasMap   bool                      `json:"hasmap"`
	Files    []fileRec                 `json:"files"` // files under the state store after the run
	Jobs     []string                  `json:"jobs"`  // "stage:segment" in the order the jobs COMPLETED
	Sched    []map[string]any          `json:"sched"` // scheduler trace (Update hook)
	Panic    string                    `json:"panic"`
	Stages   stageView                 `json:"stages"`   // first / last segment index of every stage of the scheduler (empty without scheduler)
	Leftover bool                      `json:"leftover"` // a job was still running 15 s after the request ended
}

type stageView struct {
	Kinds []string `json:"kinds"`
	First []int    `json:"first"`
	Last  []int    `json:"last"`
}

type sysEnv struct {
	dir    string // state store directory of the scenario
	prog   sysProg
	mods   *pbsubstreams.Modules
	hashes map[string]string // module identifier -> module name
	seen   map[string]bool   // every file ever seen in the state store
}

func newSysEnv(dir string, prog sysProg) *sysEnv {
	env := &sysEnv{dir: dir, prog: prog, mods: prog.modules(), hashes: map[string]string{}}
	if g, err := exec.NewOutputModuleGraph("out", true, env.mods, 0); err == nil {
		for _, m := range prog {
			env.hashes[g.ModuleHashes().Get(m.Name)] = m.Name
		}
	}
	return env
}

var schedMu sync.Mutex

var seenMu sync.Mutex

// captureFiles remembers every file ever seen in the scenario's state store (name and content): the universe the cache
// subsets are drawn from includes files of intermediate moments, e.g. partial stores that the squasher deletes later.
func captureFiles(env *sysEnv) {
	seenMu.Lock()
	defer seenMu.Unlock()
	if env.seen == nil {
		env.seen = map[string]bool{}
	}
	for _, f := range listFiles(env.dir) {
		if strings.HasSuffix(f, ".tmp") || env.seen[f] {
			continue
		}
		if b, err := os.ReadFile(filepath.Join(env.dir, f)); err == nil {
			fileVault[env.dir+"|"+f] = b
			env.seen[f] = true
		}
	}
}

func listFiles(dir string) []string {
	out := []string{}
	filepath.Walk(dir, func(p string, info os.FileInfo, err error) error {
		if err == nil && !info.IsDir() {
			rel, _ := filepath.Rel(dir, p)
			out = append(out, rel)
		}
		return nil
	})
	sort.Strings(out)
	return out
}

func typedStoreMap(env *sysEnv, sm store.Map) map[string]map[string]any {
	out := map[string]map[string]any{}
	for name, s := range sm {
		ps, vt := env.prog.polOf(name)
		kv := map[string]any{}
		s.Iter(func(k string, v []byte) error {
			pv := proj(ps.name, vt, v)
			if ps.name == "set_sum" {
				if l, ok := pv.([]any); ok {
					pv = l[1]
				}
			}
			kv[k] = pv
			return nil
		})
		out[name] = kv
	}
	return out
}

// gatedWorker runs the REAL tier2 service in-process; the harness decides the order in which jobs complete.
type gatedWorker struct {
	env   *sysEnv
	cfg   runCfg
	gate  *jobGate
	id    int
	fault func(unit stage.Unit, attempt int) string // "" | fault kind (C16)
}

type jobGate struct {
	mu       sync.Mutex
	r        *rand.Rand
	waiting  []chan struct{}
	running  int
	done     []string
	workers  int
	inflight sync.WaitGroup // job commands still running (a request can end while a job it started is still writing files)
}

// release policy: when every started job is waiting at the gate (or nothing else can start), release one at random.
func (g *jobGate) arrive(label string) {
	if g.r == nil {
		g.mu.Lock()
		g.done = append(g.done, label)
		g.mu.Unlock()
		return
	}
	ch := make(chan struct{})
	g.mu.Lock()
	g.waiting = append(g.waiting, ch)
	g.mu.Unlock()
	// give the scheduler a chance to start more jobs, then release a random waiting one
	go func() {
		time.Sleep(3 * time.Millisecond)
		g.mu.Lock()
		if len(g.waiting) > 0 {
			i := g.r.Intn(len(g.waiting))
			c := g.waiting[i]
			g.waiting = append(g.waiting[:i], g.waiting[i+1:]...)
			close(c)
		}
		g.mu.Unlock()
	}()
	<-ch
	g.mu.Lock()
	g.done = append(g.done, label)
	g.mu.Unlock()
}

// releaseAll lets every job waiting at the gate go (end of the request) and stops gating.
func (g *jobGate) releaseAll() {
	g.mu.Lock()
	for _, c := range g.waiting {
		close(c)
	}
	g.waiting = nil
	g.mu.Unlock()
}

func (w *gatedWorker) ID() string { return fmt.Sprintf("w%d", w.id) }

func (w *gatedWorker) Work(ctx context.Context, unit stage.Unit, startBlock uint64, moduleNames []string, upstream *response.Stream) loop.Cmd {
	ctx = reqctx.WithTier2RequestParameters(ctx, reqctx.Tier2RequestParameters{
		BlockType: blockType, StateBundleSize: w.cfg.Seg, StateStoreURL: w.env.dir, StateStoreDefaultTag: "tag", MeteringConfig: "null://", MergedBlockStoreURL: "/tmp/verif-no-merged-blocks"})
	request := work.NewRequest(ctx, reqctx.Details(ctx), unit.Stage, startBlock)
	if os.Getenv("VERIF_LOG") != "" {
		lg, _ := zap.NewDevelopment()
		ctx = reqctx.WithLogger(ctx, lg)
	}
	return func() loop.Msg {
		w.gate.inflight.Add(1)
		defer w.gate.inflight.Done()
		svc := service.TestNewServiceTier2(false, func(ctx context.Context, h bstream.Handler, start int64, stop uint64, _ string, _ bool, _ bool, _ *zap.Logger, _ ...bsstream.Option) (service.Streamable, error) {
			return &linearStream{h: h, start: uint64(start), end: stop}, nil
		})
		err := svc.TestProcessRange(ctx, request, func(resp substreams.ResponseFromAnyTier) error { return nil })
		if err != nil {
			return work.MsgJobFailed{Unit: unit, Error: fmt.Errorf("tier2 job %d/%d: %w", unit.Stage, unit.Segment, err)}
		}
		captureFiles(w.env) // files as they are when a job has just finished (partials are deleted later by the squasher)
		w.gate.arrive(fmt.Sprintf("%d:%d", unit.Stage, unit.Segment))
		return work.MsgJobSucceeded{Unit: unit, Worker: w}
	}
}

func runTier1(env *sysEnv, cfg runCfg, cursor string, traceSched bool) (obs runObs) {
	obs = runObs{Resp: []respRec{}, Stores: map[string]map[string]any{}, Files: []fileRec{}, Jobs: []string{}, Sched: []map[string]any{},
		Stages: stageView{Kinds: []string{}, First: []int{}, Last: []int{}}}
	base, err := dstore.NewStore(env.dir, "zst", "zstd", true)
	if err != nil {
		obs.Err = err.Error()
		return
	}
	var cancelReq atomic.Value // func(): cancels the request's context (set once the context exists)
	gate := &jobGate{workers: cfg.Workers}
	if cfg.Order != 0 {
		gate.r = rand.New(rand.NewSource(cfg.Order))
	}
	wid := 0
	rc := config.RuntimeConfig{SegmentSize: cfg.Seg, DefaultParallelSubrequests: uint64(cfg.Workers), BaseObjectStore: base, DefaultCacheTag: "tag", MaxJobsAhead: 10,
		WorkerFactory: func(lg *zap.Logger) work.Worker {
			if remoteFactory != nil {
				return remoteFactory(lg)
			}
			wid++
			return &gatedWorker{env: env, cfg: cfg, gate: gate, id: wid}
		}}
	lib := uint64(0)
	if cfg.LibOK {
		lib = cfg.Lib
		if lib == 0 {
			lib = 1 // TestNewService treats 0 as "no live feed"
		}
	}
	var lastPipe *pipeline.Pipeline
	svc := service.TestNewService(rc, lib, func(ctx context.Context, h bstream.Handler, start int64, stop uint64, _ string, _ bool, _ bool, _ *zap.Logger, _ ...bsstream.Option) (service.Streamable, error) {
		return &linearStream{h: h, start: uint64(start), end: stop, bareFinal: cfg.Final, onBlock: func(p *pipeline.Pipeline, num uint64, id string) { lastPipe = p }}, nil
	})
	if cfg.Out == "" {
		cfg.Out = "out"
	}
	req := &pbsubstreamsrpc.Request{StartBlockNum: cfg.Start, StopBlockNum: cfg.Stop, ProductionMode: cfg.Prod, OutputModule: cfg.Out, Modules: env.mods, StartCursor: cursor, FinalBlocksOnly: cfg.Final}
	var mu sync.Mutex
	collect := func(resp substreams.ResponseFromAnyTier) error {
		r, ok := resp.(*pbsubstreamsrpc.Response)
		if !ok {
			return nil
		}
		mu.Lock()
		defer mu.Unlock()
		switch m := r.Message.(type) {
		case *pbsubstreamsrpc.Response_BlockScopedData:
			d := m.BlockScopedData
			rec := respRec{Kind: "data", Num: d.Clock.Number, ID: d.Clock.Id, Payload: []int{}, Keys: []string{}, Final: d.FinalBlockHeight, cursor: d.Cursor}
			rec.Keys = []string{}
			if d.Output != nil && d.Output.MapOutput != nil && len(d.Output.MapOutput.Value) > 0 {
				if cfg.Out == "idx" {
					ks := &pbindex.Keys{}
					if err := proto.Unmarshal(d.Output.MapOutput.Value, ks); err != nil {
						rec.Unparse = true
					}
					rec.Keys = append(rec.Keys, ks.Keys...)
				} else {
					v, err := strconv.ParseInt(string(d.Output.MapOutput.Value), 10, 64)
					if err != nil {
						rec.Unparse = true
					}
					rec.Payload = []int{int(v)}
				}
			}
			if c, err := bstream.CursorFromOpaque(d.Cursor); err == nil {
				rec.CurNum, rec.CurID = c.Block.Num(), c.Block.ID()
			} else {
				rec.CurID = "?"
			}
			obs.Resp = append(obs.Resp, rec)
		case *pbsubstreamsrpc.Response_BlockUndoSignal:
			u := m.BlockUndoSignal
			obs.Resp = append(obs.Resp, respRec{Kind: "undo", Num: u.LastValidBlock.Number, ID: u.LastValidBlock.Id, Payload: []int{}, Keys: []string{}})
		case *pbsubstreamsrpc.Response_Session:
			obs.Resp = append(obs.Resp, respRec{Kind: "session", Payload: []int{}, Keys: []string{}})
		}
		return nil
	}
	// scheduler hooks: skip the 4 s ramp-up, trace every Update (not in "plain" runs: several requests at once, hooks neutral)
	if !cfg.Plain {
		schedMu.Lock()
	}
	rows := func(s *scheduler.Scheduler) []string {
		out := []string{}
		for _, l := range strings.Split(strings.TrimSpace(s.Stages.StatesString()), "\n") {
			if i := strings.Index(l, ":"); i >= 0 {
				out = append(out, l[i+1:])
			}
		}
		return out
	}
	walkerOf := func(s *scheduler.Scheduler) map[string]any {
		if s.ExecOutWalker == nil {
			return map[string]any{"has": false, "first": 0, "cur": 0, "last": 0, "working": false}
		}
		f, c, l := s.ExecOutWalker.Progress()
		return map[string]any{"has": true, "first": f, "cur": c, "last": l, "working": s.ExecOutWalker.IsWorking()}
	}
	if !cfg.Plain {
		orchestrator.VerifOnScheduler = func(s *scheduler.Scheduler) {
			s.WorkerPool.VerifSkipRampup()
			in0 := s.Stages.VerifInternals()
			obs.Stages = stageView{Kinds: append([]string{}, in0.Kinds...), First: append([]int{}, in0.First...), Last: append([]int{}, in0.Last...)}
			if traceSched {
				obs.Sched = append(obs.Sched, map[string]any{"ev": "sinit", "internals": s.Stages.VerifInternals(), "rows": rows(s), "walker": walkerOf(s),
					"workers": len(s.WorkerPool.VerifStates())})
			}
		}
		// merge gate: a merge command waits until the scheduler has handled cfg.MergeHold more messages (or 40 ms have passed:
		// nothing else may be in flight), so that merges complete late relative to job scheduling - a harness-chosen order
		var updates atomic.Int64
		bump := func() {
			if n := updates.Add(1); cfg.CancelAfter > 0 && n == int64(cfg.CancelAfter) {
				if f, ok := cancelReq.Load().(func()); ok {
					f()
				}
			}
		}
		if cfg.MergeHold > 0 {
			hold := int64(cfg.MergeHold)
			stage.VerifMergeGate = func(st, sg int) {
				start := updates.Load()
				deadline := time.Now().Add(40 * time.Millisecond)
				for updates.Load() < start+hold && time.Now().Before(deadline) {
					time.Sleep(200 * time.Microsecond)
				}
			}
		} else {
			stage.VerifMergeGate = nil
		}
		// walker gate: a download attempt that found no file stays "in flight" until the scheduler has handled cfg.WalkHold more
		// messages (or 60 ms passed) - e.g. the success of the very job that writes the file
		if cfg.WalkHold > 0 {
			hold := int64(cfg.WalkHold)
			orchexecout.VerifNotPresentGate = func() {
				start := updates.Load()
				deadline := time.Now().Add(60 * time.Millisecond)
				for updates.Load() < start+hold && time.Now().Before(deadline) {
					time.Sleep(200 * time.Microsecond)
				}
			}
		} else {
			orchexecout.VerifNotPresentGate = nil
		}
		if !traceSched {
			scheduler.VerifTrace = func(s *scheduler.Scheduler, msg loop.Msg) { bump() }
		}
		if traceSched {
			seq := 0
			scheduler.VerifTrace = func(s *scheduler.Scheduler, msg loop.Msg) {
				seq++
				bump()
				o, st := s.VerifFlags()
				busy := 0
				for _, w := range s.WorkerPool.VerifStates() {
					if w == 1 {
						busy++
					}
				}
				seg, stage := msgUnit(msg)
				in := s.Stages.VerifInternals()
				obs.Sched = append(obs.Sched, map[string]any{"ev": "supd", "seq": seq, "t": msgType(msg), "seg": seg, "stage": stage, "rows": rows(s),
					"segDone": in.SegmentCompleted, "shadowable": in.ShadowableSegment, "busy": busy, "walker": walkerOf(s), "outDone": o, "storesDone": st})
			}
		}
	}
	ctx := context.Background()
	ctx = reqctx.WithTier2RequestParameters(ctx, reqctx.Tier2RequestParameters{BlockType: blockType, StateBundleSize: cfg.Seg, StateStoreURL: env.dir, StateStoreDefaultTag: "tag", MeteringConfig: "null://", MergedBlockStoreURL: "/tmp/verif-no-merged-blocks"})
	// watchdog: a healthy request takes well under a second; under injected faults the real derr back-off (1 s, 1 s, 2 s, 3 s
	// per retry) adds up, and a loaded machine stretches both: the budget is generous so that only a real hang reaches it
	budget := 30 * time.Second
	if remoteFactory != nil {
		budget = 120 * time.Second
	}
	ctx, cancel := context.WithTimeout(ctx, budget)
	cancelReq.Store(func() { cancel() })
	obs.Panic = guard(func() { err = svc.TestBlocks(ctx, false, req, collect) })
	cancel()
	if !cfg.Plain {
		scheduler.VerifTrace = nil
		stage.VerifMergeGate = nil
		orchexecout.VerifNotPresentGate = nil
		schedMu.Unlock()
	}
	if err != nil {
		obs.Err = err.Error()
		obs.Code = connect.CodeOf(service.VerifToConnectError(context.Background(), err)).String()
	}
	if lastPipe != nil {
		if sm := lastPipe.GetStoreMap(); sm != nil {
			obs.Stores = typedStoreMap(env, sm)
			obs.HasMap = true
		}
	}
	// quiesce: a request may return while a job it started is still running (its files keep landing); the next request of
	// the scenario must start on a cache nobody writes to
	gate.releaseAll()
	quiet := make(chan struct{})
	go func() { gate.inflight.Wait(); close(quiet) }()
	select {
	case <-quiet:
	case <-time.After(15 * time.Second):
		obs.Leftover = true
	}
	gate.mu.Lock()
	obs.Jobs = append(obs.Jobs, gate.done...)
	gate.mu.Unlock()
	obs.Files = projectFiles(env, listFiles(env.dir))
	return
}

func msgType(msg loop.Msg) string {
	t := fmt.Sprintf("%T", msg)
	if i := strings.LastIndex(t, ".Msg"); i >= 0 {
		return t[i+4:]
	}
	return t
}

func msgUnit(msg loop.Msg) (int, int) {
	switch m := msg.(type) {
	case work.MsgJobSucceeded:
		return m.Unit.Segment, m.Unit.Stage
	case work.MsgJobFailed:
		return m.Unit.Segment, m.Unit.Stage
	case stage.MsgMergeFinished:
		return m.Unit.Segment, m.Unit.Stage
	case stage.MsgMergeFailed:
		return m.Unit.Segment, m.Unit.Stage
	}
	return 0, 0
}

func msgDetail(msg loop.Msg) string {
	switch m := msg.(type) {
	case work.MsgJobSucceeded:
		return fmt.Sprintf("%d:%d", m.Unit.Stage, m.Unit.Segment)
	case work.MsgJobFailed:
		return fmt.Sprintf("%d:%d", m.Unit.Stage, m.Unit.Segment)
	case stage.MsgMergeFinished:
		return fmt.Sprintf("%d:%d", m.Unit.Stage, m.Unit.Segment)
	}
	return ""
}

// ------------------------------------------------------------------ driver

func init() { register("system", runSystem) }

func setupSystem() {
	registerVerifVM()
	os.Setenv("SUBSTREAMS_WASM_RUNTIME", "verifvm")
	dmetering.RegisterNull()
}

func randCfg(r *rand.Rand, p sysProg, seg uint64) runCfg {
	outInit := p[len(p)-1].Init
	c := runCfg{Prod: r.Intn(3) != 0, Seg: seg, Workers: 1 + r.Intn(4)}
	c.Start = int64(outInit) + int64(r.Intn(14))
	// half of the time start at or above the first store (ranges below every store were the hang D15, repaired by 9cc62b1c)
	var lowStore uint64 = 1 << 62
	for _, m := range p {
		if m.Kind == "store" && m.Init < lowStore {
			lowStore = m.Init
		}
	}
	if lowStore < 1<<62 && uint64(c.Start) < lowStore && r.Intn(2) != 0 {
		c.Start = int64(lowStore) + int64(r.Intn(8))
	}
	c.Stop = uint64(c.Start) + 1 + uint64(r.Intn(22))
	if r.Intn(5) != 0 {
		c.LibOK = true
		c.Lib = uint64(r.Intn(45))
	}
	if r.Intn(2) == 0 {
		c.Order = r.Int63n(1<<30) + 1
	}
	c.Final = r.Intn(4) == 0
	c.MergeHold = []int{0, 0, 1, 3, 8}[r.Intn(5)]
	c.WalkHold = []int{0, 0, 1, 2, 4}[r.Intn(5)]
	return c
}

func runSystem(a *args) error {
	setupSystem()
	root, err := os.MkdirTemp("", "vsys-")
	if err != nil {
		return err
	}
	defer os.RemoveAll(root)
	var r *rand.Rand
	n := 40
	if a.tier == "thorough" {
		n = 1500
	}
	if a.n > 0 {
		n = a.n
	}
	want := a.extra // "" = all kinds of scenarios; or: strategies | subsets | resume
	for i := 0; i < n; i++ {
		// one random stream per scenario, derived from (seed, index): scenario i can be re-run alone (-only i)
		r = rand.New(rand.NewSource(a.seed*1000003 + int64(i)))
		if (a.only >= 0 && i != a.only) || i%a.shardN != a.shardK {
			continue
		}
		if want == "faults" {
			runFaults(a, r, root, i)
			continue
		}
		kind := []string{"strategies", "subsets", "resume", "forks", "sparse", "layers"}[i%6]
		if want != "" {
			kind = want
		}
		if kind == "schedcex" {
			runSchedCex(a, r, root, i)
			continue
		}
		if kind == "sparse" {
			runSparseCache(a, r, root, i)
			continue
		}
		if kind == "layers" {
			runLayers(a, r, root, i)
			continue
		}
		prog := randProg(r)
		env := newSysEnv(filepath.Join(root, fmt.Sprintf("s%d", i)), prog)
		os.MkdirAll(env.dir, 0755)
		seg := []uint64{2, 3, 4, 5, 7, 10}[r.Intn(6)]
		a.emit(map[string]any{"ev": "prog", "prog": prog, "seg": seg, "scenario": i})
		switch kind {
		case "strategies":
			// a sequence of requests over the same cache: cold production, warm production (other range), development
			var prev runCfg
			havePrev := false
			paired := r.Intn(4) == 0 // first the source mapper alone, then the real output over the files that left
			var first runCfg
			for k := 0; k < 3+r.Intn(3); k++ {
				cfg := randCfg(r, prog, seg)
				cfg.Label = fmt.Sprintf("strategies/%d", k)
				if paired && k == 0 {
					cfg.Prod, cfg.Out = true, "m_src"
					for _, m := range prog {
						if m.Name == "m_src" && uint64(cfg.Start) < m.Init {
							cfg.Start = int64(m.Init)
						}
					}
					cfg.Stop = uint64(cfg.Start) + 2*seg + uint64(r.Intn(8))
					if cfg.Stop > 48 { // the reference execution of the specification covers blocks 0..48
						cfg.Stop = 48
					}
					cfg.LibOK, cfg.Lib = true, cfg.Stop+uint64(r.Intn(10))
					first = cfg
				} else if paired && k == 1 {
					cfg.Prod = true
					if cfg.Start < first.Start {
						cfg.Start = first.Start
					}
					cfg.Stop = uint64(cfg.Start) + 1 + seg + uint64(r.Intn(10))
					cfg.LibOK, cfg.Lib = true, cfg.Stop+uint64(r.Intn(10))
				} else if k >= 1 && havePrev && r.Intn(3) == 0 {
					// the previous production request again, starting strictly INSIDE one of the output files it left
					cfg = prev
					cfg.Label = fmt.Sprintf("strategies/%d", k)
					cfg.Start = prev.Start + 1 + int64(r.Intn(int(seg)+2))
					if uint64(cfg.Start) >= cfg.Stop {
						cfg.Stop = uint64(cfg.Start) + 1 + uint64(r.Intn(6))
					}
					cfg.Workers = 1 + r.Intn(3)
				} else if r.Intn(3) == 0 {
					// another output module over the same cache directory (the graph, its stages and the files needed differ)
					var maps []sysMod
					for _, m := range prog {
						if (m.Kind == "map" || m.Kind == "index") && m.Name != "out" {
							maps = append(maps, m)
						}
					}
					if len(maps) > 0 {
						m := maps[r.Intn(len(maps))]
						cfg.Out = m.Name
						if uint64(cfg.Start) < m.Init {
							cfg.Start = int64(m.Init) + int64(r.Intn(6))
							cfg.Stop = uint64(cfg.Start) + 1 + uint64(r.Intn(22))
						}
					}
				}
				emitRun(a, env, cfg, "", true)
				if cfg.Prod && (cfg.Out == "" || cfg.Out == "out") {
					prev, havePrev = cfg, true
				}
			}
		case "subsets":
			// one complete run, then re-runs on random subsets of the files it left (plus crash debris)
			cfg := randCfg(r, prog, seg)
			cfg.Prod = true
			cfg.Label = "subsets/full"
			emitRun(a, env, cfg, "", true)
			captureFiles(env)
			all := listFiles(env.dir)
			for f := range env.seen {
				all = unionFiles(all, []string{f})
			}
			for k := 0; k < 5; k++ {
				keep := map[string]bool{}
				for _, f := range all {
					if r.Intn(2) == 0 {
						keep[f] = true
					}
				}
				if k == 0 && r.Intn(2) == 0 {
					// eviction with holes: everything is kept except every other full snapshot of each store (missing, present,
					// missing, present ...) and the cached outputs of the output module
					for f := range keep {
						keep[f] = true
					}
					for _, f := range all {
						keep[f] = true
					}
					seenKV := map[string]int{}
					for _, f := range all {
						parts := strings.Split(f, "/")
						if len(parts) < 4 {
							continue
						}
						if parts[2] == "states" && !strings.Contains(parts[3], ".partial") {
							seenKV[parts[1]]++
							if seenKV[parts[1]]%2 == 1 {
								keep[f] = false
							}
						}
						if parts[2] == "outputs" && env.hashes[parts[1]] == "out" {
							keep[f] = false
						}
					}
				}
				if k == 4 {
					// crash on a cold cache: jobs have written partial snapshots, nothing is merged yet, and the writes of one job
					// were cut short: one store misses its files of one segment (the other stores of that job have theirs)
					var stores []string
					ends := map[string][]string{}
					for _, f := range all {
						parts := strings.Split(f, "/")
						if len(parts) < 4 || parts[2] != "states" {
							continue
						}
						isPartial := strings.Contains(parts[3], ".partial")
						keep[f] = isPartial
						if isPartial {
							if _, ok := ends[parts[1]]; !ok {
								stores = append(stores, parts[1])
							}
							ends[parts[1]] = append(ends[parts[1]], f)
						}
					}
					sort.Strings(stores)
					if len(stores) > 0 {
						m := stores[r.Intn(len(stores))]
						victim := ends[m][r.Intn(len(ends[m]))]
						keep[victim] = false
						if r.Intn(2) == 0 { // ... or all its files up to that segment
							for _, f := range ends[m] {
								if f <= victim {
									keep[f] = false
								}
							}
						}
					}
				}
				if k == 1 {
					// per-module classes: what pruning one module's directory, a partially uploaded backup or a squash that
					// stopped half-way leave: each module directory keeps all / none / only partial / only full snapshots /
					// a prefix of its files; output files all / none / random
					class := map[string]int{}
					for _, f := range all {
						parts := strings.Split(f, "/")
						if len(parts) < 4 {
							continue
						}
						dk := parts[1] + "/" + parts[2]
						if _, ok := class[dk]; !ok {
							class[dk] = r.Intn(6)
						}
						isPartial := strings.Contains(parts[3], ".partial")
						switch class[dk] {
						case 0:
							keep[f] = true
						case 1:
							keep[f] = false
						case 2:
							keep[f] = parts[2] != "states" || isPartial
						case 3:
							keep[f] = parts[2] != "states" || !isPartial
						case 4:
							var hi uint64
							fmt.Sscanf(parts[3], "%d-", &hi)
							keep[f] = hi <= uint64(cfg.Start)+seg*2
						}
					}
				}
				if k == 2 || k == 3 {
					// structured subsets: per store module keep ONLY partial snapshots or ONLY full snapshots (alternating by
					// module, flipped between the two variants): what a crash in the middle of a multi-store squash leaves
					for _, fr := range projectFiles(env, all) {
						_ = fr
					}
					mods := map[string]int{}
					for _, f := range all {
						parts := strings.Split(f, "/")
						if len(parts) < 4 || parts[2] != "states" {
							continue
						}
						if _, ok := mods[parts[1]]; !ok {
							mods[parts[1]] = len(mods)
						}
						wantPartial := (mods[parts[1]]+k)%2 == 0
						isPartial := strings.Contains(parts[3], ".partial")
						keep[f] = wantPartial == isPartial
					}
				}
				resetDir(env.dir, all, keep, r)
				c2 := cfg
				c2.Label = fmt.Sprintf("subsets/%d", k)
				c2.Workers = 1 + r.Intn(3)
				c2.MergeHold = []int{0, 1, 3, 8}[r.Intn(4)]
				if r.Intn(2) == 0 {
					c2.Order = r.Int63n(1<<30) + 1
				}
				emitRun(a, env, c2, "", true)
				all = unionFiles(all, listFiles(env.dir))
			}
		case "forks":
			for k := 0; k < 3; k++ {
				runForks(a, r, env, seg)
			}
		case "cancel":
			// a request cancelled in the middle of its parallel phase (after a random number of scheduler messages), then the same
			// request again on whatever the cancelled one left behind
			cfg := randCfg(r, prog, seg)
			cfg.Prod = true
			cfg.Stop = uint64(cfg.Start) + 2*seg + uint64(r.Intn(12))
			victim := cfg
			victim.CancelAfter = 2 + r.Intn(25)
			victim.Label = "cancel/victim"
			emitRun(a, env, victim, "", false)
			for k := 0; k < 2; k++ {
				again := cfg
				again.Label = fmt.Sprintf("cancel/after%d", k)
				again.Workers = 1 + r.Intn(3)
				if k == 0 && r.Intn(2) == 0 { // cancelled once more
					again.CancelAfter = 2 + r.Intn(25)
					again.Label = "cancel/victim2"
				}
				emitRun(a, env, again, "", false)
			}
		case "concurrent":
			// two (or three) requests AT THE SAME TIME on one cache directory: same program, overlapping ranges, cold or warm
			identical := r.Intn(2) == 0 // the same production request several times at once on a cold cache
			if !identical && r.Intn(2) == 0 {
				c0 := randCfg(r, prog, seg)
				c0.Prod, c0.Label = true, "concurrent/warmup"
				emitRun(a, env, c0, "", false)
			}
			schedMu.Lock()
			orchestrator.VerifOnScheduler = func(s *scheduler.Scheduler) { s.WorkerPool.VerifSkipRampup() }
			scheduler.VerifTrace, stage.VerifMergeGate, orchexecout.VerifNotPresentGate = nil, nil, nil
			nreq := 2 + r.Intn(2)
			cfgs := make([]runCfg, nreq)
			before := projectFiles(env, listFiles(env.dir))
			for k := range cfgs {
				cfgs[k] = randCfg(r, prog, seg)
				cfgs[k].Prod = k == 0 || r.Intn(3) != 0
				cfgs[k].Plain, cfgs[k].MergeHold, cfgs[k].WalkHold = true, 0, 0
				cfgs[k].Label = fmt.Sprintf("concurrent/%d", k)
				cfgs[k].Out = "out"
				if identical {
					cfgs[k].Prod = true
				}
				if k > 0 && (identical || r.Intn(2) == 0) { // the same range as the first one
					cfgs[k].Start, cfgs[k].Stop, cfgs[k].LibOK, cfgs[k].Lib = cfgs[0].Start, cfgs[0].Stop, cfgs[0].LibOK, cfgs[0].Lib
				}
			}
			obss := make([]runObs, nreq)
			var wg sync.WaitGroup
			for k := range cfgs {
				wg.Add(1)
				go func(k int) {
					defer wg.Done()
					obss[k] = runTier1(env, cfgs[k], "", false)
				}(k)
			}
			wg.Wait()
			schedMu.Unlock()
			for k := range cfgs {
				emitObs(a, env, cfgs[k], obss[k], before)
			}
		case "resume":
			cfg := randCfg(r, prog, seg)
			cfg.Label = "resume/original"
			obs := emitRun(a, env, cfg, "", false)
			var datas []respRec
			for _, x := range obs.Resp {
				if x.Kind == "data" {
					datas = append(datas, x)
				}
			}
			for k := 0; k < 3 && len(datas) > 1; k++ {
				j := r.Intn(len(datas) - 1)
				c2 := cfg
				c2.Cursor = fmt.Sprintf("resume:%d", datas[j].Num)
				c2.Label = fmt.Sprintf("resume/%d", k)
				emitRun(a, env, c2, datas[j].cursor, false)
			}
		}
		os.RemoveAll(env.dir)
	}
	return nil
}

func unionFiles(a, b []string) []string {
	m := map[string]bool{}
	for _, x := range a {
		m[x] = true
	}
	for _, x := range b {
		m[x] = true
	}
	out := []string{}
	for x := range m {
		out = append(out, x)
	}
	sort.Strings(out)
	return out
}

// resetDir keeps exactly the files of `keep` (content as last written) and adds crash debris.
var fileVault = map[string][]byte{}

func resetDir(dir string, all []string, keep map[string]bool, r *rand.Rand) {
	for _, f := range listFiles(dir) {
		b, err := os.ReadFile(filepath.Join(dir, f))
		if err == nil {
			fileVault[dir+"|"+f] = b
		}
		os.Remove(filepath.Join(dir, f))
	}
	for _, f := range all {
		if keep[f] {
			if b, ok := fileVault[dir+"|"+f]; ok {
				os.MkdirAll(filepath.Dir(filepath.Join(dir, f)), 0755)
				os.WriteFile(filepath.Join(dir, f), b, 0644)
			}
		} else if r.Intn(4) == 0 && !strings.HasSuffix(f, ".spkg.zst") {
			// what a crash inside dstore's write-then-rename leaves behind
			os.MkdirAll(filepath.Dir(filepath.Join(dir, f)), 0755)
			os.WriteFile(filepath.Join(dir, f)+".abcdefgh.tmp", []byte("half written"), 0644)
		}
	}
}

type fileRec struct {
	Mod   string `json:"mod"`
	Kind  string `json:"kind"` // output kv partial index other
	Start uint64 `json:"start"`
	End   uint64 `json:"end"`
	Tmp   bool   `json:"tmp"`
}

// projectFiles turns a listing of the state store into structured records (module name through its identifier).
func projectFiles(env *sysEnv, files []string) []fileRec {
	out := []fileRec{}
	for _, f := range files {
		parts := strings.Split(f, "/")
		if len(parts) < 4 {
			continue
		}
		name, ok := env.hashes[parts[1]]
		if !ok {
			name = "?" + parts[1]
		}
		base := parts[3]
		rec := fileRec{Mod: name, Kind: "other", Tmp: strings.HasSuffix(base, ".tmp")}
		var a, b uint64
		switch {
		case strings.Contains(base, ".output"):
			fmt.Sscanf(base, "%d-%d", &a, &b)
			rec.Kind, rec.Start, rec.End = "output", a, b
		case strings.Contains(base, ".kv"):
			fmt.Sscanf(base, "%d-%d", &b, &a)
			rec.Kind, rec.Start, rec.End = "kv", a, b
		case strings.Contains(base, ".partial"):
			fmt.Sscanf(base, "%d-%d", &b, &a)
			rec.Kind, rec.Start, rec.End = "partial", a, b
		case strings.Contains(base, ".index"):
			fmt.Sscanf(base, "%d-%d", &a, &b)
			rec.Kind, rec.Start, rec.End = "index", a, b
		}
		out = append(out, rec)
	}
	return out
}

// emitObs logs a run that was executed elsewhere (concurrent requests)
func emitObs(a *args, env *sysEnv, cfg runCfg, obs runObs, before []fileRec) {
	nd := 0
	for _, x := range obs.Resp {
		if x.Kind == "data" {
			nd++
		}
	}
	obs.Sched = []map[string]any{}
	a.emitNT(map[string]any{"ev": "run", "cfg": cfg, "obs": obs, "filesBefore": before, "failAt": -1}, nd > 1)
}

func emitRun(a *args, env *sysEnv, cfg runCfg, cursor string, traceSched bool) runObs {
	if cfg.Out == "" {
		cfg.Out = "out"
	}
	before := projectFiles(env, listFiles(env.dir))
	obs := runTier1(env, cfg, cursor, traceSched)
	nd := 0
	for _, x := range obs.Resp {
		if x.Kind == "data" {
			nd++
		}
	}
	sched := obs.Sched
	obs.Sched = []map[string]any{}
	a.emitNT(map[string]any{"ev": "run", "cfg": cfg, "obs": obs, "filesBefore": before, "failAt": -1}, nd > 1)
	for _, e := range sched { // the scheduler trace of the run, one record per Scheduler.Update (hook)
		e["label"] = cfg.Label
		a.emit(e)
	}
	if len(sched) > 0 {
		a.emit(map[string]any{"ev": "send", "err": obs.Err, "panic": obs.Panic})
	}
	return obs
}

// ------------------------------------------------------------------ fork histories (C03)

type forkStep struct {
	Step     string `json:"step"` // new undo irr stalled newirr
	Num      uint64 `json:"num"`
	ID       string `json:"id"`
	Junction string `json:"junction"` // undo: id of the reorg junction block
	JNum     uint64 `json:"jnum"`
	Final    bool   `json:"final"` // a block of the final prefix fed before the fork tree
}

type genStep struct {
	blk *pbbstream.Block
	obj *stepObj
	js  forkStep
}

// forkSteps: a random fork tree over `depth` heights above `base`, delivered in a random (parent-first) arrival order
// with random finality progress, turned into steps by the REAL bstream/forkable.
func forkSteps(r *rand.Rand, base uint64, depth int) ([]chainBlock, []genStep) {
	type node struct {
		cb chainBlock
	}
	lib := base - 1
	var arrival []chainBlock
	levels := map[uint64][]chainBlock{base - 1: {{Num: base - 1, ID: finalID(base - 1)}}}
	for h := base; h < base+uint64(depth); h++ {
		nb := 1 + r.Intn(2)
		if r.Intn(3) == 0 || h == base {
			nb = 1 // (no fork directly on the initial LIB: forkable holds no block object for it and reports no junction)
		}
		for b := 0; b < nb; b++ {
			parents := levels[h-1]
			p := parents[r.Intn(len(parents))]
			id := fmt.Sprintf("%d%c", h, 'a'+byte(len(levels[h])))
			if h == base && len(levels[h]) == 0 {
				id = fmt.Sprintf("%d%c", h, 'a')
			}
			cb := chainBlock{Num: h, ID: id, Parent: p.ID, Lib: lib}
			levels[h] = append(levels[h], cb)
			arrival = append(arrival, cb)
		}
	}
	// ping-pong: two branches above the same parent, alternately one block longer than the other, so that the same blocks
	// are applied, undone, re-applied and undone again
	if r.Intn(3) == 0 {
		levels = map[uint64][]chainBlock{base - 1: levels[base-1]}
		arrival = nil
		root := chainBlock{Num: base, ID: fmt.Sprintf("%da", base), Parent: finalID(base - 1), Lib: lib}
		arrival = append(arrival, root)
		tipA, tipB := root, root
		lenA, lenB := uint64(0), uint64(0)
		for k := 0; k < 3+r.Intn(4); k++ {
			if k%2 == 0 { // extend A until it is longer than B
				for lenA <= lenB {
					lenA++
					cb := chainBlock{Num: base + lenA, ID: fmt.Sprintf("%da", base+lenA), Parent: tipA.ID, Lib: lib}
					arrival = append(arrival, cb)
					tipA = cb
				}
			} else {
				for lenB <= lenA {
					lenB++
					cb := chainBlock{Num: base + lenB, ID: fmt.Sprintf("%db", base+lenB), Parent: tipB.ID, Lib: lib}
					arrival = append(arrival, cb)
					tipB = cb
				}
			}
		}
		depth = 0
	}
	// sometimes continue one branch a bit more (long reorgs / flipping back and forth)
	for extra := r.Intn(4); extra > 0 && depth > 0; extra-- {
		h := base + uint64(r.Intn(depth))
		if len(levels[h]) == 0 || h < base {
			continue
		}
		p := levels[h][r.Intn(len(levels[h]))]
		id := fmt.Sprintf("%d%c", h+1, 'a'+byte(len(levels[h+1])))
		cb := chainBlock{Num: h + 1, ID: id, Parent: p.ID, Lib: lib}
		levels[h+1] = append(levels[h+1], cb)
		arrival = append(arrival, cb)
	}
	// random arrival order, parents first (ping-pong histories keep their order)
	pos := map[string]int{finalID(base - 1): -1}
	var order []chainBlock
	rest := append([]chainBlock{}, arrival...)
	if depth == 0 {
		order, rest = rest, nil
	}
	for len(rest) > 0 {
		var ready []int
		for i, cb := range rest {
			if _, ok := pos[cb.Parent]; ok {
				ready = append(ready, i)
			}
		}
		i := ready[r.Intn(len(ready))]
		if r.Intn(3) != 0 {
			i = ready[0]
		}
		pos[rest[i].ID] = len(order)
		order = append(order, rest[i])
		rest = append(rest[:i], rest[i+1:]...)
	}
	var out []genStep
	fk := forkableNew(bstream.NewBlockRef(finalID(base-1), base-1), func(blk *pbbstream.Block, step bstream.StepType, cur *bstream.Cursor, junction bstream.BlockRef) {
		js := forkStep{Num: blk.Number, ID: blk.Id}
		switch {
		case step == bstream.StepNew:
			js.Step = "new"
		case step == bstream.StepUndo:
			js.Step = "undo"
		case step == bstream.StepIrreversible:
			js.Step = "irr"
		case step == bstream.StepStalled:
			js.Step = "stalled"
		case step == bstream.StepNewIrreversible:
			js.Step = "newirr"
		default:
			js.Step = fmt.Sprintf("step%d", step)
		}
		if junction != nil {
			js.Junction, js.JNum = junction.ID(), junction.Num()
		}
		out = append(out, genStep{blk: blk, obj: &stepObj{cursor: cur, step: step, junction: junction}, js: js})
	})
	curLib := base - 1
	for i, cb := range order {
		// finality progress: sometimes a block declares an ancestor (at least 2 below) final
		if r.Intn(4) == 0 && cb.Num >= base+2 {
			if nl := cb.Num - 2 - uint64(r.Intn(2)); nl > curLib {
				curLib = nl
			}
		}
		order[i].Lib = curLib
		fk(mkBlock(cb.Num, cb.ID, cb.Parent, curLib))
	}
	return order, out
}

type forkObs struct {
	Resp  []respRec        `json:"resp"`
	After []map[string]any `json:"after"` // per step: typed store map, sizes, number of responses so far
	Err   string           `json:"err"`
	Panic string           `json:"panic"`
}

func runForks(a *args, r *rand.Rand, env *sysEnv, seg uint64) {
	out := env.prog[len(env.prog)-1]
	base := out.Init + 2 + uint64(r.Intn(8))
	arrival, steps := forkSteps(r, base, 2+r.Intn(4))
	start := int64(base) - int64(r.Intn(3))
	if start < int64(out.Init) {
		start = int64(out.Init)
	}
	if r.Intn(5) == 0 {
		start = int64(base) + int64(r.Intn(3)) // start ABOVE the first forked heights: an undo below the start block
	}
	cfg := runCfg{Prod: r.Intn(3) == 0, Start: start, Stop: base + 40, LibOK: true, Lib: base - 1, Seg: seg, Workers: 1 + r.Intn(2), Label: "forks"}
	obs := forkObs{Resp: []respRec{}, After: []map[string]any{}}
	basest, err := dstore.NewStore(env.dir, "zst", "zstd", true)
	if err != nil {
		return
	}
	gate := &jobGate{workers: cfg.Workers}
	wid := 0
	rc := config.RuntimeConfig{SegmentSize: cfg.Seg, DefaultParallelSubrequests: uint64(cfg.Workers), BaseObjectStore: basest, DefaultCacheTag: "tag", MaxJobsAhead: 10,
		WorkerFactory: func(*zap.Logger) work.Worker { wid++; return &gatedWorker{env: env, cfg: cfg, gate: gate, id: wid} }}
	var mu sync.Mutex
	jsteps := []forkStep{}
	svc := service.TestNewService(rc, cfg.Lib, func(ctx context.Context, h bstream.Handler, st int64, stop uint64, _ string, _ bool, _ bool, _ *zap.Logger, _ ...bsstream.Option) (service.Streamable, error) {
		return streamFunc(func(ctx context.Context) error {
			snap := func(js forkStep) {
				p := pipeOf(h)
				rec := map[string]any{"stores": map[string]map[string]any{}, "sizesOK": true, "nresp": 0}
				if p != nil {
					if sm := p.GetStoreMap(); sm != nil {
						rec["stores"] = typedStoreMap(env, sm)
						for _, s := range sm {
							var act uint64
							s.Iter(func(k string, v []byte) error { act += uint64(len(k) + len(v)); return nil })
							if act != s.SizeBytes() {
								rec["sizesOK"] = false
							}
						}
					}
				}
				mu.Lock()
				rec["nresp"] = len(obs.Resp)
				mu.Unlock()
				obs.After = append(obs.After, rec)
				jsteps = append(jsteps, js)
			}
			// final prefix [handoff, base)
			for n := uint64(st); n < base; n++ {
				lib := n
				blk := mkBlock(n, finalID(n), finalID(n-1), lib)
				ref := bstream.NewBlockRef(blk.Id, n)
				obj := &stepObj{step: bstream.StepNewIrreversible, cursor: &bstream.Cursor{Step: bstream.StepNewIrreversible, Block: ref, LIB: ref, HeadBlock: ref}}
				if err := h.ProcessBlock(blk, obj); err != nil {
					return err
				}
				snap(forkStep{Step: "newirr", Num: n, ID: blk.Id, Final: true})
			}
			for _, s := range steps {
				if err := h.ProcessBlock(s.blk, s.obj); err != nil {
					return err
				}
				snap(s.js)
			}
			return io.EOF
		}), nil
	})
	req := &pbsubstreamsrpc.Request{StartBlockNum: cfg.Start, StopBlockNum: cfg.Stop, ProductionMode: cfg.Prod, OutputModule: "out", Modules: env.mods}
	collect := func(resp substreams.ResponseFromAnyTier) error {
		rr, ok := resp.(*pbsubstreamsrpc.Response)
		if !ok {
			return nil
		}
		mu.Lock()
		defer mu.Unlock()
		switch m := rr.Message.(type) {
		case *pbsubstreamsrpc.Response_BlockScopedData:
			d := m.BlockScopedData
			rec := respRec{Kind: "data", Num: d.Clock.Number, ID: d.Clock.Id, Payload: []int{}, Keys: []string{}, Final: d.FinalBlockHeight}
			if d.Output != nil && d.Output.MapOutput != nil && len(d.Output.MapOutput.Value) > 0 {
				v, err := strconv.ParseInt(string(d.Output.MapOutput.Value), 10, 64)
				rec.Unparse = err != nil
				rec.Payload = []int{int(v)}
			}
			if c, err := bstream.CursorFromOpaque(d.Cursor); err == nil {
				rec.CurNum, rec.CurID = c.Block.Num(), c.Block.ID()
			}
			rec.cursor = d.Cursor
			obs.Resp = append(obs.Resp, rec)
		case *pbsubstreamsrpc.Response_BlockUndoSignal:
			u := m.BlockUndoSignal
			obs.Resp = append(obs.Resp, respRec{Kind: "undo", Num: u.LastValidBlock.Number, ID: u.LastValidBlock.Id, Payload: []int{}, Keys: []string{}, cursor: u.LastValidCursor})
		}
		return nil
	}
	schedMu.Lock()
	orchestrator.VerifOnScheduler = func(s *scheduler.Scheduler) { s.WorkerPool.VerifSkipRampup() }
	scheduler.VerifTrace = nil
	ctx := reqctx.WithTier2RequestParameters(context.Background(), reqctx.Tier2RequestParameters{BlockType: blockType, StateBundleSize: cfg.Seg, StateStoreURL: env.dir, StateStoreDefaultTag: "tag", MeteringConfig: "null://", MergedBlockStoreURL: "/tmp/verif-no-merged-blocks"})
	// watchdog: a healthy request takes well under a second; under injected faults the real derr back-off (1 s, 1 s, 2 s, 3 s
	// per retry) adds up, and a loaded machine stretches both: the budget is generous so that only a real hang reaches it
	budget := 30 * time.Second
	if remoteFactory != nil {
		budget = 120 * time.Second
	}
	ctx, cancel := context.WithTimeout(ctx, budget)
	obs.Panic = guard(func() { err = svc.TestBlocks(ctx, false, req, collect) })
	cancel()
	schedMu.Unlock()
	if err != nil {
		obs.Err = err.Error()
	}
	a.emitNT(map[string]any{"ev": "forkrun", "cfg": cfg, "base": base, "arrival": arrival, "steps": jsteps, "obs": obs}, len(steps) > 3)
	if obs.Err != "" || obs.Panic != "" || cfg.Start > int64(base) {
		return
	}
	for _, s := range jsteps {
		if s.Step == "undo" && s.Junction == "" {
			return // junction not observable (harness artefact, see TraceSystem)
		}
	}
	forkResume(a, r, env, cfg, base, arrival, steps, jsteps, obs.Resp)
}

// forkResume: the client of the fork run reconnects with the cursor of a message it received - preferably one whose block
// was orphaned afterwards. The cursor resolver (the firehose's job in production: locate the cursor's block on the current
// chain) answers from the fork tree; the stream then serves the canonical chain as it stands at the end of the history.
// The client model of TraceSystem.tla continues from what the client held at that message: an undo signal for the fork's
// junction must come first when the block was orphaned, then the canonical blocks right after the junction (C12, C03).
func forkResume(a *args, r *rand.Rand, env *sysEnv, cfg runCfg, base uint64, arrival []chainBlock, steps []genStep, jsteps []forkStep, first []respRec) {
	// canonical chain of the forked part at the end of the history, and the parent links
	var canon []forkStep
	for _, s := range jsteps {
		switch {
		case s.Final:
		case s.Step == "new" || s.Step == "newirr":
			canon = append(canon, s)
		case s.Step == "undo":
			if n := len(canon); n > 0 && canon[n-1].ID == s.ID {
				canon = canon[:n-1]
			}
		}
	}
	onCanon := map[string]bool{}
	for _, c := range canon {
		onCanon[c.ID] = true
	}
	parent := map[string]chainBlock{}
	byID := map[string]chainBlock{}
	for _, cb := range arrival {
		byID[cb.ID] = cb
	}
	for _, cb := range arrival {
		if p, ok := byID[cb.Parent]; ok {
			parent[cb.ID] = p
		} else {
			parent[cb.ID] = chainBlock{Num: cb.Num - 1, ID: cb.Parent}
		}
	}
	// the messages a client may reconnect from: data messages of blocks orphaned afterwards, undo signals (their
	// last_valid_cursor), data messages of blocks still on the chain
	var orphans, undos, others []int
	for i, m := range first {
		if m.cursor == "" || m.Num+1 < base {
			continue
		}
		switch {
		case m.Num >= base && !onCanon[m.ID]:
			orphans = append(orphans, i)
		case m.Kind == "undo":
			undos = append(undos, i)
		default:
			others = append(others, i)
		}
	}
	var picks []int
	if len(orphans) > 0 {
		picks = append(picks, orphans[r.Intn(len(orphans))])
	}
	if len(undos) > 0 {
		picks = append(picks, undos[r.Intn(len(undos))])
	}
	if len(others) > 0 && (len(picks) == 0 || r.Intn(2) == 0) {
		picks = append(picks, others[r.Intn(len(others))])
	}
	head := bstream.NewBlockRef(finalID(base-1), base-1)
	if n := len(canon); n > 0 {
		head = bstream.NewBlockRef(canon[n-1].ID, canon[n-1].Num)
	}
	libRef := bstream.NewBlockRef(finalID(base-1), base-1)
	for _, k := range picks {
		from := first[k]
		if c, err := bstream.CursorFromOpaque(from.cursor); err == nil {
			from.CurNum, from.CurID = c.Block.Num(), c.Block.ID()
		}
		obs := forkObs{Resp: []respRec{}, After: []map[string]any{}}
		basest, err := dstore.NewStore(env.dir, "zst", "zstd", true)
		if err != nil {
			return
		}
		gate := &jobGate{workers: cfg.Workers}
		wid := 0
		rc := config.RuntimeConfig{SegmentSize: cfg.Seg, DefaultParallelSubrequests: uint64(cfg.Workers), BaseObjectStore: basest, DefaultCacheTag: "tag", MaxJobsAhead: 10,
			WorkerFactory: func(*zap.Logger) work.Worker { wid++; return &gatedWorker{env: env, cfg: cfg, gate: gate, id: wid} }}
		resolved := map[string]any{"called": false, "num": 0, "id": ""}
		streamArgs := map[string]any{"cursor": false, "target": false, "from": int64(-1)}
		svc := service.TestNewService(rc, cfg.Lib, func(ctx context.Context, h bstream.Handler, st int64, stop uint64, curStr string, _ bool, cursorIsTarget bool, _ *zap.Logger, _ ...bsstream.Option) (service.Streamable, error) {
			// bstream's joining source: "startBlockNum is overridden by the cursor if it exists, unless we are in cursorIsTarget
			// mode" - with a cursor that is not a target the stream resumes right after the cursor's block (from the block
			// itself for an undo-step cursor) whatever the start number says
			if curStr != "" && !cursorIsTarget {
				if c, err := bstream.CursorFromOpaque(curStr); err == nil {
					st = int64(c.Block.Num()) + 1
					if c.Step.Matches(bstream.StepUndo) {
						st = int64(c.Block.Num())
					}
				}
			}
			streamArgs["cursor"], streamArgs["target"], streamArgs["from"] = curStr != "", cursorIsTarget, st
			return streamFunc(func(ctx context.Context) error {
				for n := uint64(st); n < base; n++ {
					blk := mkBlock(n, finalID(n), finalID(n-1), n)
					ref := bstream.NewBlockRef(blk.Id, n)
					obj := &stepObj{step: bstream.StepNewIrreversible, cursor: &bstream.Cursor{Step: bstream.StepNewIrreversible, Block: ref, LIB: ref, HeadBlock: ref}}
					if err := h.ProcessBlock(blk, obj); err != nil {
						return err
					}
				}
				for _, c := range canon {
					if c.Num < uint64(st) {
						continue
					}
					cb := byID[c.ID]
					ref := bstream.NewBlockRef(c.ID, c.Num)
					obj := &stepObj{step: bstream.StepNew, cursor: &bstream.Cursor{Step: bstream.StepNew, Block: ref, LIB: libRef, HeadBlock: ref}}
					if err := h.ProcessBlock(mkBlock(c.Num, c.ID, cb.Parent, base-1), obj); err != nil {
						return err
					}
				}
				return io.EOF
			}), nil
		})
		svc.VerifSetCursorResolver(func(_ context.Context, cur *bstream.Cursor) (bstream.BlockRef, bstream.BlockRef, error) {
			resolved["called"] = true
			b := chainBlock{Num: cur.Block.Num(), ID: cur.Block.ID()}
			if b.Num < base || onCanon[b.ID] {
				return nil, head, nil // not forked: the source's first step is a new block (junctionBlockGetter leaves the junction nil)
			}
			for b.Num >= base && !onCanon[b.ID] {
				p, ok := parent[b.ID]
				if !ok {
					return nil, nil, fmt.Errorf("cursor block %s is unknown", b.ID)
				}
				b = p
			}
			resolved["num"], resolved["id"] = b.Num, b.ID
			return bstream.NewBlockRef(b.ID, b.Num), head, nil
		})
		req := &pbsubstreamsrpc.Request{StartBlockNum: cfg.Start, StartCursor: from.cursor, StopBlockNum: cfg.Stop, ProductionMode: cfg.Prod, OutputModule: "out", Modules: env.mods}
		var mu sync.Mutex
		collect := func(resp substreams.ResponseFromAnyTier) error {
			rr, ok := resp.(*pbsubstreamsrpc.Response)
			if !ok {
				return nil
			}
			mu.Lock()
			defer mu.Unlock()
			switch m := rr.Message.(type) {
			case *pbsubstreamsrpc.Response_BlockScopedData:
				d := m.BlockScopedData
				rec := respRec{Kind: "data", Num: d.Clock.Number, ID: d.Clock.Id, Payload: []int{}, Keys: []string{}, Final: d.FinalBlockHeight}
				if d.Output != nil && d.Output.MapOutput != nil && len(d.Output.MapOutput.Value) > 0 {
					v, err := strconv.ParseInt(string(d.Output.MapOutput.Value), 10, 64)
					rec.Unparse = err != nil
					rec.Payload = []int{int(v)}
				}
				if c, err := bstream.CursorFromOpaque(d.Cursor); err == nil {
					rec.CurNum, rec.CurID = c.Block.Num(), c.Block.ID()
				}
				obs.Resp = append(obs.Resp, rec)
			case *pbsubstreamsrpc.Response_BlockUndoSignal:
				u := m.BlockUndoSignal
				rec := respRec{Kind: "undo", Num: u.LastValidBlock.Number, ID: u.LastValidBlock.Id, Payload: []int{}, Keys: []string{}}
				if c, err := bstream.CursorFromOpaque(u.LastValidCursor); err == nil {
					rec.CurNum, rec.CurID = c.Block.Num(), c.Block.ID()
				}
				obs.Resp = append(obs.Resp, rec)
			}
			return nil
		}
		schedMu.Lock()
		orchestrator.VerifOnScheduler = func(s *scheduler.Scheduler) { s.WorkerPool.VerifSkipRampup() }
		scheduler.VerifTrace = nil
		ctx := reqctx.WithTier2RequestParameters(context.Background(), reqctx.Tier2RequestParameters{BlockType: blockType, StateBundleSize: cfg.Seg, StateStoreURL: env.dir, StateStoreDefaultTag: "tag", MeteringConfig: "null://", MergedBlockStoreURL: "/tmp/verif-no-merged-blocks"})
		ctx, cancel := context.WithTimeout(ctx, 30*time.Second)
		obs.Panic = guard(func() { err = svc.TestBlocks(ctx, false, req, collect) })
		cancel()
		schedMu.Unlock()
		if err != nil {
			obs.Err = err.Error()
		}
		a.emitNT(map[string]any{"ev": "forkresume", "cfg": cfg, "base": base, "arrival": arrival, "steps": jsteps, "fromidx": k + 1,
			"from": from, "before": first[:k+1], "resolved": resolved, "stream": streamArgs, "obs": obs}, len(obs.Resp) > 1)
	}
}

type streamFunc func(ctx context.Context) error

func (f streamFunc) Run(ctx context.Context) error { return f(ctx) }

// runSchedCex replays the design-level counterexample TLC finds in MCSched_3x4 (JobInputsComplete): two store stages
// (st2 reads st1), a cache that holds st1's snapshots for the first two segments and nothing of st2 (left by an earlier
// request for a mapper that only reads st1), then a production request whose start block lies in the third segment.
// runSparseCache: a request for the (sparse, skip-empty) source mapper alone leaves output files that hold only SOME blocks of
// each segment; a later request whose other modules need no block source (clock-only store, mapper over the store) must still
// run them on EVERY block of the segment.
func runSparseCache(a *args, r *rand.Rand, root string, i int) {
	body := func(kind string) vbody {
		return vbody{Kind: kind, Emit: always(), FailAt: -1, Terms: []vterm{}, Ops: []vop{}, Keys: []vkey{}}
	}
	src := sysMod{Name: "m_src", Kind: "map", Inputs: []ainput{{K: "source", V: blockType}}, Filter: []any{}, Body: body("map")}
	src.Body.Terms = []vterm{{T: "num", C: 1}, {T: "const", C: 1}}
	src.Body.Emit = whenMod(uint64(2+r.Intn(3)), 0)
	src.Body.SkipEmpty = true
	st1 := sysMod{Name: "st1", Kind: "store", Inputs: []ainput{{K: "source", V: "sf.substreams.v1.Clock"}}, Filter: []any{}, Body: body("store")}
	variant := r.Intn(4)
	var extra []sysMod
	if variant == 1 { // a store over the sparse mapper AND the clock
		st1.Inputs = []ainput{{K: "source", V: "sf.substreams.v1.Clock"}, {K: "map", V: "m_src"}}
	} else if variant == 2 { // a store over a params-only mapper (which executes on every block)
		mp := sysMod{Name: "m_par", Kind: "map", Inputs: []ainput{{K: "params", V: "p=1"}}, Filter: []any{}, Body: body("map")}
		mp.Body.Terms = []vterm{{T: "const", C: 1}}
		extra = append(extra, mp)
		st1.Inputs = []ainput{{K: "map", V: "m_par"}}
	}
	st1.Body.Pol, st1.Body.VT = "add", "int64"
	st1.Body.Ops = []vop{{Op: "w", Base: 0, Step: 0, Val: []vterm{{T: "const", C: 1}}, When: always()}}
	out := sysMod{Name: "out", Kind: "map", Inputs: []ainput{{K: "map", V: "m_src"}, {K: "store", V: "st1", Mode: []string{"get", "deltas"}[r.Intn(2)]}}, Filter: []any{}, Body: body("map")}
	if out.Inputs[1].Mode == "get" {
		out.Body.Terms = []vterm{{T: "in", I: 0, C: 1000}, {T: "get", I: 1, C: 1, Key: "a", How: "last", Num: true}}
	} else {
		out.Body.Terms = []vterm{{T: "in", I: 0, C: 1000}, {T: "dsum", I: 1, C: 1, Num: true}}
	}
	prog := append(append(sysProg{src}, extra...), st1, out)
	seg := uint64(2 + r.Intn(4))
	env := newSysEnv(filepath.Join(root, fmt.Sprintf("sparse%d", i)), prog)
	os.MkdirAll(env.dir, 0755)
	a.emit(map[string]any{"ev": "prog", "prog": prog, "seg": seg, "scenario": i})
	n := uint64(2 + r.Intn(3))
	c1 := runCfg{Prod: true, Start: 0, Stop: n * seg, LibOK: true, Lib: (n + 2) * seg, Seg: seg, Workers: 2, Label: "strategies/sparse-prepare", Out: "m_src"}
	emitRun(a, env, c1, "", true)
	c2 := runCfg{Prod: true, Start: int64(r.Intn(int(seg))), Stop: n*seg + uint64(r.Intn(3)), LibOK: true, Lib: (n + 2) * seg, Seg: seg, Workers: 1 + r.Intn(3), Order: r.Int63n(1<<30) + 1, Label: "strategies/sparse-request", Out: "out"}
	emitRun(a, env, c2, "", true)
	c3 := c2
	c3.Prod, c3.Label = false, "strategies/sparse-dev"
	emitRun(a, env, c3, "", true)
	os.RemoveAll(env.dir)
}

// runLayers: modules of ONE execution layer that start at different blocks (in both list orders), read by the output mapper on
// every block; linear, back-filled and mixed requests whose ranges and segments cut across the later initial block.
func runLayers(a *args, r *rand.Rand, root string, i int) {
	body := func(kind string) vbody {
		return vbody{Kind: kind, Emit: always(), FailAt: -1, Terms: []vterm{}, Ops: []vop{}, Keys: []vkey{}}
	}
	late := uint64(3 + r.Intn(9))
	src := sysMod{Name: "m_src", Kind: "map", Inputs: []ainput{{K: "source", V: blockType}}, Filter: []any{}, Body: body("map")}
	src.Body.Terms = []vterm{{T: "num", C: 1}}
	mk := func(name string, init uint64, key int) sysMod {
		m := sysMod{Name: name, Kind: "store", Init: init, Inputs: []ainput{{K: "map", V: "m_src"}}, Filter: []any{}, Body: body("store")}
		m.Body.Pol, m.Body.VT = "add", "int64"
		m.Body.Ops = []vop{{Op: "w", Base: uint64(key), Step: 0, Val: []vterm{{T: "const", C: 1}}, When: always()}}
		return m
	}
	sa, sb := mk("st1", 0, 0), mk("st2", late, 0)
	if r.Intn(2) == 0 {
		sa.Init, sb.Init = late, 0
	}
	out := sysMod{Name: "out", Kind: "map", Inputs: []ainput{{K: "map", V: "m_src"}, {K: "store", V: "st1", Mode: "get"}, {K: "store", V: "st2", Mode: "get"}}, Filter: []any{}, Body: body("map")}
	out.Body.Terms = []vterm{{T: "get", I: 1, C: 1, Key: "a", How: "last", Num: true}, {T: "get", I: 2, C: 100, Key: "a", How: "last", Num: true}}
	prog := sysProg{src, sa, sb, out}
	if r.Intn(3) == 0 { // a third module of the same layer
		sc := mk("st3", uint64(r.Intn(int(late))), 1)
		out.Inputs = append(out.Inputs, ainput{K: "store", V: "st3", Mode: "get"})
		out.Body.Terms = append(out.Body.Terms, vterm{T: "get", I: 3, C: 10000, Key: "ab", How: "last", Num: true})
		prog = sysProg{src, sa, sc, sb, out}
	}
	seg := []uint64{2, 3, 4, 5, 7}[r.Intn(5)]
	env := newSysEnv(filepath.Join(root, fmt.Sprintf("layers%d", i)), prog)
	os.MkdirAll(env.dir, 0755)
	a.emit(map[string]any{"ev": "prog", "prog": prog, "seg": seg, "scenario": i})
	for k := 0; k < 4; k++ {
		cfg := runCfg{Prod: k%2 == 1, Start: int64(r.Intn(int(late) + 3)), Seg: seg, Workers: 1 + r.Intn(3), LibOK: true, Label: fmt.Sprintf("strategies/layers-%d", k)}
		cfg.Stop = uint64(cfg.Start) + 3 + uint64(r.Intn(16))
		cfg.Lib = uint64(cfg.Start) + uint64(r.Intn(20))
		if r.Intn(2) == 0 {
			cfg.Order = r.Int63n(1<<30) + 1
		}
		cfg.MergeHold = []int{0, 1, 3}[r.Intn(3)]
		emitRun(a, env, cfg, "", true)
	}
	os.RemoveAll(env.dir)
}

func runSchedCex(a *args, r *rand.Rand, root string, i int) {
	body := func(kind string) vbody {
		return vbody{Kind: kind, Emit: always(), FailAt: -1, Terms: []vterm{}, Ops: []vop{}, Keys: []vkey{}}
	}
	src := sysMod{Name: "m_src", Kind: "map", Inputs: []ainput{{K: "source", V: blockType}}, Filter: []any{}, Body: body("map")}
	src.Body.Terms = []vterm{{T: "num", C: 1}, {T: "const", C: 1}}
	st1 := sysMod{Name: "st1", Kind: "store", Inputs: []ainput{{K: "map", V: "m_src"}}, Filter: []any{}, Body: body("store")}
	st1.Body.Pol, st1.Body.VT = "add", "int64"
	st1.Body.Ops = []vop{{Op: "w", Base: 0, Step: 1, Val: []vterm{{T: "in", I: 0, C: 1}}, When: always()}}
	st2 := sysMod{Name: "st2", Kind: "store", Inputs: []ainput{{K: "map", V: "m_src"}, {K: "store", V: "st1", Mode: "get"}}, Filter: []any{}, Body: body("store")}
	st2.Body.Pol, st2.Body.VT = "add", "int64"
	st2.Body.Ops = []vop{{Op: "w", Base: 1, Step: 1, Val: []vterm{{T: "get", I: 1, C: 1, Key: "a", How: "last", Num: true}, {T: "const", C: 1}}, When: always()}}
	out1 := sysMod{Name: "out1", Kind: "map", Inputs: []ainput{{K: "map", V: "m_src"}, {K: "store", V: "st1", Mode: "get"}}, Filter: []any{}, Body: body("map")}
	out1.Body.Terms = []vterm{{T: "in", I: 0, C: 1}, {T: "get", I: 1, C: 10, Key: "b", How: "last", Num: true}}
	out := sysMod{Name: "out", Kind: "map", Inputs: []ainput{{K: "map", V: "m_src"}, {K: "store", V: "st2", Mode: "get"}}, Filter: []any{}, Body: body("map")}
	out.Body.Terms = []vterm{{T: "in", I: 0, C: 1}, {T: "get", I: 1, C: 10, Key: "b", How: "last", Num: true}}
	prog := sysProg{src, st1, st2, out1, out}
	seg := uint64(2 + r.Intn(3))
	env := newSysEnv(filepath.Join(root, fmt.Sprintf("cex%d", i)), prog)
	os.MkdirAll(env.dir, 0755)
	a.emit(map[string]any{"ev": "prog", "prog": prog, "seg": seg, "scenario": i})
	if i%2 == 1 {
		// shape B: a complete run of the real output, then the LOWER store's snapshots are pruned (its module directory's
		// states are gone) while the higher store keeps its own and the outputs are dropped: stage 1 looks complete from the
		// files, stage 0 has to be rebuilt, and no job of the mapper stage may start before that
		n := uint64(3)
		c1 := runCfg{Prod: true, Start: 0, Stop: n * seg, LibOK: true, Lib: (n + 2) * seg, Seg: seg, Workers: 2, Label: "schedcex/prepare", Out: "out"}
		emitRun(a, env, c1, "", true)
		for _, f := range listFiles(env.dir) {
			parts := strings.Split(f, "/")
			if len(parts) < 4 {
				continue
			}
			name := env.hashes[parts[1]]
			if (name == "st1" && parts[2] == "states") || (name == "out" && parts[2] == "outputs") || (name == "st1" && parts[2] == "outputs" && r.Intn(2) == 0) {
				os.Remove(filepath.Join(env.dir, f))
			}
		}
		c2 := runCfg{Prod: true, Start: int64(seg) + int64(r.Intn(int(seg))), Stop: n * seg, LibOK: true, Lib: (n + 2) * seg, Seg: seg, Workers: 1 + r.Intn(3), Order: r.Int63n(1<<30) + 1,
			MergeHold: []int{0, 3}[r.Intn(2)], Label: "schedcex/request", Out: "out"}
		emitRun(a, env, c2, "", true)
		os.RemoveAll(env.dir)
		return
	}
	// request 1: mapper out1 over the first two segments: leaves st1's snapshots at the end of segment 0 and 1
	c1 := runCfg{Prod: true, Start: 0, Stop: 2 * seg, LibOK: true, Lib: 5 * seg, Seg: seg, Workers: 2, Label: "schedcex/prepare", Out: "out1"}
	emitRun(a, env, c1, "", true)
	// request 2: mapper out, start in the third segment, several workers, random completion order
	c2 := runCfg{Prod: true, Start: int64(2*seg) + int64(r.Intn(int(seg))), Stop: 4 * seg, LibOK: true, Lib: 5 * seg, Seg: seg, Workers: 3, Order: r.Int63n(1<<30) + 1, Label: "schedcex/request", Out: "out"}
	emitRun(a, env, c2, "", true)
	os.RemoveAll(env.dir)
}
