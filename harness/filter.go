package main

import (
	"context"
	"fmt"
	"math/rand"
	"sort"
	"strings"

	"github.com/RoaringBitmap/roaring/roaring64"
	pbindex "github.com/streamingfast/substreams/pb/sf/substreams/index/v1"
	"github.com/streamingfast/substreams/sqe"
	"github.com/streamingfast/substreams/storage/index"
	"google.golang.org/protobuf/proto"
)

func init() { register("filter", runFilter) }

var filterKeys = []string{"a", "b", "c", "evt:x", "k-1", "z"}

// randExpr generates filter text: nested and/or/parentheses, implicit and, quoted and bare keys, long || chains.
func randExpr(r *rand.Rand, depth int) string {
	key := func() string {
		k := filterKeys[r.Intn(len(filterKeys))]
		switch r.Intn(4) {
		case 0:
			return "'" + k + "'"
		case 1:
			return "\"" + k + "\""
		}
		return k
	}
	if depth == 0 || r.Intn(3) == 0 {
		return key()
	}
	n := 2 + r.Intn(3)
	if r.Intn(12) == 0 {
		n = 6 + r.Intn(10) // long chains trigger the optimizer's flattening
	}
	op := []string{" && ", " || ", " "}[r.Intn(3)]
	parts := make([]string, n)
	for i := range parts {
		p := randExpr(r, depth-1)
		if r.Intn(2) == 0 || strings.ContainsAny(p, " ") {
			p = "(" + p + ")"
		}
		parts[i] = p
	}
	return strings.Join(parts, op)
}

// astJSON converts the REAL parsed AST into nested JSON arrays for the specification.
func astJSON(e sqe.Expression) any {
	switch v := e.(type) {
	case *sqe.KeyTerm:
		return []any{"key", v.Value.Value}
	case *sqe.AndExpression:
		cs := []any{}
		for _, c := range v.Children {
			cs = append(cs, astJSON(c))
		}
		return []any{"and", cs}
	case *sqe.OrExpression:
		cs := []any{}
		for _, c := range v.Children {
			cs = append(cs, astJSON(c))
		}
		return []any{"or", cs}
	case *sqe.ParenthesisExpression:
		return []any{"paren", astJSON(v.Child)}
	}
	return []any{"unknown", fmt.Sprintf("%T", e)}
}

func bitmapBlocks(b *roaring64.Bitmap) []uint64 {
	out := []uint64{}
	if b != nil {
		out = append(out, b.ToArray()...)
	}
	return out
}

func runFilter(a *args) error {
	r := rand.New(rand.NewSource(a.seed))
	n := 700
	if a.tier == "thorough" {
		n = 20000
	}
	if a.n > 0 {
		n = a.n
	}
	ctx := context.Background()
	for i := 0; i < n; i++ {
		// one assignment of keys to the blocks of a "segment", then several expressions over the SAME index (aliasing)
		nblk := 4 + r.Intn(8)
		base := uint64(r.Intn(3)) * 1000
		assign := map[string][]string{} // block -> keys (JSON object keyed by "b<num>")
		bitmaps := map[string]*roaring64.Bitmap{}
		var blocks []uint64
		for b := 0; b < nblk; b++ {
			num := base + uint64(b)
			blocks = append(blocks, num)
			ks := []string{}
			for _, k := range filterKeys[:3+r.Intn(4)] {
				if r.Intn(3) == 0 {
					ks = append(ks, k)
					if bitmaps[k] == nil {
						bitmaps[k] = roaring64.New()
					}
					bitmaps[k].Add(num)
				}
			}
			assign[fmt.Sprintf("b%d", num)] = ks
		}
		snapshot := func() map[string][]uint64 {
			out := map[string][]uint64{}
			for k, b := range bitmaps {
				out[k] = bitmapBlocks(b)
			}
			return out
		}
		before := snapshot()
		nexpr := 1 + r.Intn(4)
		for x := 0; x < nexpr; x++ {
			text := randExpr(r, 1+r.Intn(3))
			rec := map[string]any{"k": "filter", "text": text, "assign": assign, "blocks": blocks, "index": before, "nth": x,
				"ast": []any{"key", "a"}, "parseErr": "", "panic": "", "bitmap": []uint64{}, "perBlock": []bool{}, "skip": []bool{}, "skipKeys": []bool{}, "indexAfter": before}
			expr, err := sqe.Parse(ctx, text)
			if err != nil {
				rec["parseErr"] = err.Error()
				a.emit(rec)
				continue
			}
			rec["ast"] = astJSON(expr)
			rec["panic"] = guard(func() {
				res := sqe.RoaringBitmapsApply(expr, bitmaps)
				rec["bitmap"] = bitmapBlocks(res)
				bi := index.NewBlockIndex(expr, "idx", res)
				per, skip, skipKeys := []bool{}, []bool{}, []bool{}
				for _, num := range blocks {
					ks := assign[fmt.Sprintf("b%d", num)]
					per = append(per, sqe.KeysApply(expr, sqe.NewFromIndexKeys(&pbindex.Keys{Keys: ks})))
					skip = append(skip, bi.Skip(num))
					raw, _ := proto.Marshal(&pbindex.Keys{Keys: ks})
					skipKeys = append(skipKeys, index.NewBlockIndex(expr, "idx", nil).SkipFromKeys(raw))
				}
				rec["perBlock"], rec["skip"], rec["skipKeys"] = per, skip, skipKeys
				rec["indexAfter"] = snapshot()
			})
			a.emitNT(rec, strings.ContainsAny(text, " "))
		}
	}
	_ = sort.Strings
	return nil
}
