package main

import (
	"math/rand"
	"reflect"
	"sort"
	"unicode/utf8"

	pboutput "github.com/streamingfast/substreams/storage/execout/pb"
	"github.com/streamingfast/substreams/storage/store/marshaller"
	"google.golang.org/protobuf/proto"
	"google.golang.org/protobuf/types/known/timestamppb"
)

func init() { register("wire", runWire) }

func ints(b []byte) []int {
	out := make([]int, len(b))
	for i, x := range b {
		out[i] = int(x)
	}
	return out
}

// limbs: canonical little-endian base-128 digits of a uint64 (what a varint carries)
func limbs(n uint64) []int {
	out := []int{}
	for {
		out = append(out, int(n&0x7f))
		n >>= 7
		if n == 0 {
			return out
		}
	}
}

func wireKey(r *rand.Rand, binaryOK bool) string {
	switch r.Intn(6) {
	case 0:
		return ""
	case 1:
		return "k"
	case 2:
		if binaryOK {
			return string(randBytes(r, 1+r.Intn(6)))
		}
		return "é世x"
	default:
		return string([]byte("key:abcdefghij")[:1+r.Intn(13)])
	}
}

func wireVal(r *rand.Rand, big bool) []byte {
	switch r.Intn(10) {
	case 0, 1:
		return []byte{}
	case 2:
		return randBytes(r, 126+r.Intn(4))
	case 3:
		if big {
			return randBytes(r, 16382+r.Intn(4))
		}
		return randBytes(r, 200+r.Intn(200))
	default:
		return randBytes(r, r.Intn(20))
	}
}

func sameKV(a, b map[string][]byte) bool {
	if len(a) != len(b) {
		return false
	}
	for k, v := range a {
		w, ok := b[k]
		if !ok || string(v) != string(w) {
			return false
		}
	}
	return true
}

func sameList(a, b []string) bool {
	if len(a) != len(b) {
		return false
	}
	for i := range a {
		if a[i] != b[i] {
			return false
		}
	}
	return true
}

func storeRecord(r *rand.Rand, nent int, big, binaryKeys bool) map[string]any {
	data := &marshaller.StoreData{Kv: map[string][]byte{}, DeletePrefixes: []string{}}
	utf := true
	for i := 0; i < nent; i++ {
		k := wireKey(r, binaryKeys)
		if !utf8.ValidString(k) {
			utf = false
		}
		data.Kv[k] = wireVal(r, big)
	}
	for i := r.Intn(3); i > 0; i-- {
		data.DeletePrefixes = append(data.DeletePrefixes, wireKey(r, false))
	}
	keys := make([]string, 0, len(data.Kv))
	var sum uint64
	for k, v := range data.Kv {
		keys = append(keys, k)
		sum += uint64(len(k) + len(v))
	}
	sort.Strings(keys)
	kv := [][][]int{}
	for _, k := range keys {
		kv = append(kv, [][]int{ints([]byte(k)), ints(data.Kv[k])})
	}
	del := [][]int{}
	for _, d := range data.DeletePrefixes {
		del = append(del, ints([]byte(d)))
	}
	rec := map[string]any{"k": "store", "kv": kv, "del": del, "sum": sum, "utf8": utf, "panic": ""}
	encs := map[string][]int{}
	flags := map[string]bool{}
	sizes := map[string]uint64{}
	rec["panic"] = guard(func() {
		ms := map[string]marshaller.Marshaller{"vt": &marshaller.VTproto{}, "fast": &marshaller.ProtoingFast{}, "std": &marshaller.Proto{}}
		raw := map[string][]byte{}
		for name, m := range ms {
			if name == "std" && !utf {
				continue // the standard encoder refuses non-UTF-8 map keys (string field)
			}
			b, err := m.Marshal(data)
			if err != nil {
				flags["marshal_"+name] = false
				continue
			}
			flags["marshal_"+name] = true
			raw[name] = b
			encs[name] = ints(b)
		}
		for en, b := range raw {
			for dn, m := range ms {
				if dn != "vt" && !utf {
					continue // proto.Unmarshal rejects invalid UTF-8 too
				}
				cp := append([]byte{}, b...)
				got, size, err := m.Unmarshal(cp)
				ok := err == nil && got != nil && sameKV(got.Kv, data.Kv) && sameList(got.DeletePrefixes, data.DeletePrefixes)
				flags["dec_"+dn+"_reads_"+en] = ok
				if dn == "vt" && err == nil {
					sizes["vt_reads_"+en] = size
				}
			}
		}
		bm := &marshaller.Binary{}
		if b, err := bm.Marshal(data); err == nil {
			got, _, err := bm.Unmarshal(b)
			flags["binary_roundtrip"] = err == nil && sameKV(got.Kv, data.Kv)
		} else {
			flags["binary_roundtrip"] = false
		}
	})
	rec["enc"], rec["flags"], rec["sizes"] = encs, flags, sizes
	return rec
}

func arrayRecord(r *rand.Rand, nitems int) map[string]any {
	m := &pboutput.Map{Kv: map[string]*pboutput.Item{}}
	for i := 0; i < nitems; i++ {
		it := &pboutput.Item{}
		switch r.Intn(4) {
		case 0:
			it.BlockNum = uint64(r.Intn(200))
		case 1:
			it.BlockNum = uint64(r.Int63())<<1 | uint64(r.Intn(2)) // full 64-bit
		case 2:
			it.BlockNum = []uint64{0, 127, 128, 16383, 16384, 1<<32 - 1, 1 << 32, 1<<63 - 1, 1 << 63}[r.Intn(9)]
		default:
			it.BlockNum = uint64(r.Int63n(20_000_000))
		}
		it.BlockId = string([]byte("00ab34cdef56789a")[:1+r.Intn(15)]) + string(rune('a'+i%26)) + string(rune('A'+(i/26)%26))
		if r.Intn(8) == 0 && i == 0 {
			it.BlockId = ""
		}
		it.Payload = wireVal(r, false)
		if r.Intn(5) == 0 {
			it.Payload = nil
		}
		switch r.Intn(6) {
		case 0: // nil timestamp
		case 1:
			it.Timestamp = &timestamppb.Timestamp{} // present but zero (epoch)
		case 2:
			it.Timestamp = &timestamppb.Timestamp{Seconds: -int64(r.Intn(100000)) - 1, Nanos: int32(r.Intn(1000))}
		case 3:
			it.Timestamp = &timestamppb.Timestamp{Nanos: int32(1 + r.Intn(999999999))}
		default:
			it.Timestamp = &timestamppb.Timestamp{Seconds: 1_600_000_000 + int64(r.Intn(100_000_000)), Nanos: int32(r.Intn(1000000000))}
		}
		if r.Intn(3) != 0 {
			it.Cursor = string(randBytesASCII(r, r.Intn(140)))
		}
		m.Kv[it.BlockId] = it
	}
	ids := make([]string, 0, len(m.Kv))
	for id := range m.Kv {
		ids = append(ids, id)
	}
	sort.Strings(ids)
	items := []map[string]any{}
	for _, id := range ids {
		it := m.Kv[id]
		j := map[string]any{"num": limbs(it.BlockNum), "id": ints([]byte(it.BlockId)), "payload": ints(it.Payload), "cursor": ints([]byte(it.Cursor)),
			"hasTs": it.Timestamp != nil, "secs": []int{0}, "nanos": []int{0}}
		if it.Timestamp != nil {
			j["secs"] = limbs(uint64(it.Timestamp.Seconds))
			j["nanos"] = limbs(uint64(int64(it.Timestamp.Nanos)))
		}
		items = append(items, j)
	}
	rec := map[string]any{"k": "array", "items": items, "panic": ""}
	encs := map[string][]int{}
	flags := map[string]bool{}
	same := func(got map[string]*pboutput.Item) bool {
		if len(got) != len(m.Kv) {
			return false
		}
		for id, it := range m.Kv {
			g, ok := got[id]
			if !ok || !proto.Equal(g, it) {
				return false
			}
		}
		return true
	}
	rec["panic"] = guard(func() {
		fast, err := m.MarshalFast()
		flags["marshal_fast"] = err == nil
		arr := &pboutput.Array{}
		for _, id := range ids {
			arr.Items = append(arr.Items, m.Kv[id])
		}
		std, err2 := proto.Marshal(arr)
		flags["marshal_std"] = err2 == nil
		encs["fast"], encs["std"] = ints(fast), ints(std)
		for en, b := range map[string][]byte{"fast": fast, "std": std} {
			// fast decoder
			fm := &pboutput.Map{}
			err := fm.UnmarshalFast(append([]byte{}, b...))
			flags["dec_fast_reads_"+en] = err == nil && same(fm.Kv)
			// standard decoder
			sa := &pboutput.Array{}
			err = proto.Unmarshal(b, sa)
			got := map[string]*pboutput.Item{}
			for _, it := range sa.Items {
				got[it.BlockId] = it
			}
			flags["dec_std_reads_"+en] = err == nil && same(got)
		}
	})
	rec["enc"], rec["flags"] = encs, flags
	_ = reflect.DeepEqual
	return rec
}

func randBytesASCII(r *rand.Rand, n int) []byte {
	b := make([]byte, n)
	for i := range b {
		b[i] = byte('!' + r.Intn(90))
	}
	return b
}

func runWire(a *args) error {
	r := rand.New(rand.NewSource(a.seed))
	n := 800
	if a.tier == "thorough" {
		n = 40000
	}
	if a.n > 0 {
		n = a.n
	}
	for i := 0; i < n; i++ {
		nent := []int{0, 1, 2, 3, 6, 12}[r.Intn(6)]
		big := i%60 == 7
		if a.tier == "thorough" && i%400 == 3 {
			nent = 600 + r.Intn(600)
		}
		rec := storeRecord(r, nent, big, i%5 == 4)
		a.emitNT(rec, nent > 1)
		rec2 := arrayRecord(r, []int{0, 1, 2, 4, 9}[r.Intn(5)])
		a.emitNT(rec2, len(rec2["items"].([]map[string]any)) > 1)
	}
	return nil
}
