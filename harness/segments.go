package main

import (
	"math/rand"

	"github.com/streamingfast/substreams/block"
)

func init() { register("segments", runSegments) }

func rng(r *block.Range) []uint64 {
	if r == nil {
		return []uint64{}
	}
	return []uint64{r.StartBlock, r.ExclusiveEndBlock}
}

func rngs(rs []*block.Range) [][]uint64 {
	out := [][]uint64{}
	for _, r := range rs {
		out = append(out, rng(r))
	}
	return out
}

func segRecord(sz, init, end uint64) map[string]any {
	rec := map[string]any{"k": "seg", "sz": sz, "init": init, "end": end, "panic": "",
		"first": 0, "last": 0, "count": 0, "segs": [][]uint64{}, "below": []uint64{}, "above": []uint64{}, "above2": []uint64{},
		"ifs": []int{}, "ife": []int{}, "eoi": []bool{}, "eoi_panic": ""}
	rec["panic"] = guard(func() {
		s := block.NewSegmenter(sz, init, end)
		first, last := s.FirstIndex(), s.LastIndex()
		rec["first"], rec["last"], rec["count"] = first, last, s.Count()
		segs := [][]uint64{}
		eoi := []bool{}
		for i := first; i <= last && i < first+4096; i++ {
			segs = append(segs, rng(s.Range(i)))
			// EndsOnInterval dereferences Range(i): a missing segment must not hide the rest of the record
			e := false
			if p := guard(func() { e = s.EndsOnInterval(i) }); p != "" && rec["eoi_panic"] == "" {
				rec["eoi_panic"] = p
			}
			eoi = append(eoi, e)
		}
		rec["segs"], rec["eoi"] = segs, eoi
		rec["below"] = rng(s.Range(first - 1))
		rec["above"] = rng(s.Range(last + 1))
		rec["above2"] = rng(s.Range(last + 2))
		ifs, ife := []int{}, []int{}
		for b := init; b < end; b++ {
			ifs = append(ifs, s.IndexForStartBlock(b))
			ife = append(ife, s.IndexForEndBlock(b+1))
		}
		rec["ifs"], rec["ife"] = ifs, ife
	})
	return rec
}

func splitRecord(s, e, chunk uint64) map[string]any {
	rec := map[string]any{"k": "split", "r": []uint64{s, e}, "chunk": chunk, "out": [][]uint64{}, "panic": ""}
	rec["panic"] = guard(func() { rec["out"] = rngs(block.NewRange(s, e).Split(chunk)) })
	return rec
}

func mergedRecord(in [][]uint64) map[string]any {
	rec := map[string]any{"k": "merged", "in": in, "out": [][]uint64{}, "panic": ""}
	rec["panic"] = guard(func() {
		var rs block.Ranges
		for _, r := range in {
			rs = append(rs, block.NewRange(r[0], r[1]))
		}
		rec["out"] = rngs(rs.Merged())
	})
	return rec
}

// all sorted lists of disjoint non-empty ranges with cut points in 0..maxPt
func allRangeLists(maxPt int, f func([][]uint64)) {
	var rec func(from int, cur [][]uint64)
	rec = func(from int, cur [][]uint64) {
		if len(cur) > 0 {
			cp := make([][]uint64, len(cur))
			copy(cp, cur)
			f(cp)
		}
		for s := from; s < maxPt; s++ {
			for e := s + 1; e <= maxPt; e++ {
				rec(e, append(cur, []uint64{uint64(s), uint64(e)}))
			}
		}
	}
	rec(0, nil)
}

func runSegments(a *args) error {
	maxSz, maxInit, maxEnd, maxPt, nRand := uint64(16), uint64(32), uint64(48), 8, 3000
	if a.tier == "thorough" {
		maxSz, maxInit, maxEnd, maxPt, nRand = 16, 64, 96, 10, 100000
	}
	// exhaustive over the stated space
	for sz := uint64(1); sz <= maxSz; sz++ {
		for init := uint64(0); init <= maxInit; init++ {
			for end := init + 1; end <= maxEnd; end++ {
				a.emitNT(segRecord(sz, init, end), end-init > sz)
			}
		}
	}
	// Split: every range over 0..maxEnd/2 and chunk 1..maxSz
	for s := uint64(0); s <= 24; s++ {
		for e := s + 1; e <= 25; e++ {
			for c := uint64(1); c <= maxSz; c++ {
				a.emitNT(splitRecord(s, e, c), e-s > c)
			}
		}
	}
	// Merged: every sorted disjoint list over 0..maxPt, then random lists over 0..64
	allRangeLists(maxPt, func(l [][]uint64) { a.emitNT(mergedRecord(l), len(l) > 1) })
	r := rand.New(rand.NewSource(a.seed))
	if a.n > 0 {
		nRand = a.n
	}
	for i := 0; i < nRand; i++ {
		var l [][]uint64
		pos := uint64(r.Intn(4))
		for pos < 64 && len(l) < 12 {
			ln := uint64(1 + r.Intn(6))
			if pos+ln > 64 {
				break
			}
			l = append(l, []uint64{pos, pos + ln})
			pos += ln
			if r.Intn(2) == 0 { // gap or adjacent
				pos += uint64(1 + r.Intn(4))
			}
		}
		if len(l) == 0 {
			continue
		}
		a.emitNT(mergedRecord(l), len(l) > 1)
		// large segmenters well above the exhaustive space
		sz := uint64(1 + r.Intn(40))
		init := uint64(r.Intn(2000000000))
		end := init + 1 + uint64(r.Intn(int(sz)*6))
		a.emitNT(segRecord(sz, init, end), end-init > sz)
		a.emitNT(splitRecord(init, end, sz), end-init > sz)
	}
	return nil
}
