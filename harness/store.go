package main

import (
	"context"
	"encoding/hex"
	"fmt"
	"math"
	"math/big"
	"math/rand"
	"os"
	"sort"
	"strconv"
	"strings"

	"github.com/shopspring/decimal"
	"github.com/streamingfast/dstore"
	"github.com/streamingfast/substreams/metrics"
	pbsubstreams "github.com/streamingfast/substreams/pb/sf/substreams/v1"
	"github.com/streamingfast/substreams/storage/store"
	"github.com/streamingfast/substreams/wasm"
	"go.uber.org/zap"
)

func init() { register("store", runStore) }

// ------------------------------------------------------------------ policies and value types

type polSpec struct {
	name   string // spec name: set sine append add min max set_sum
	policy pbsubstreams.Module_KindStore_UpdatePolicy
	vts    []string
}

var polSpecs = []polSpec{
	{"set", pbsubstreams.Module_KindStore_UPDATE_POLICY_SET, []string{"string", "bytes", "proto:verif.Val"}},
	{"sine", pbsubstreams.Module_KindStore_UPDATE_POLICY_SET_IF_NOT_EXISTS, []string{"string", "bytes", "proto:verif.Val"}},
	{"append", pbsubstreams.Module_KindStore_UPDATE_POLICY_APPEND, []string{"string", "bytes"}},
	{"add", pbsubstreams.Module_KindStore_UPDATE_POLICY_ADD, []string{"int64", "float64", "bigint", "bigdecimal", "bigfloat"}},
	{"min", pbsubstreams.Module_KindStore_UPDATE_POLICY_MIN, []string{"int64", "float64", "bigint", "bigdecimal", "bigfloat"}},
	{"max", pbsubstreams.Module_KindStore_UPDATE_POLICY_MAX, []string{"int64", "float64", "bigint", "bigdecimal", "bigfloat"}},
	{"set_sum", pbsubstreams.Module_KindStore_UPDATE_POLICY_SET_SUM, []string{"int64", "float64", "bigint", "bigdecimal"}},
}

func isNumeric(pol string) bool {
	return pol == "add" || pol == "min" || pol == "max" || pol == "set_sum"
}

// sop is one store operation of a block, in the abstract value domain of the specification.
type sop struct {
	Op  string `json:"op"`  // "w" | "del"
	Ord uint64 `json:"ord"` //
	Key string `json:"key"` // key, or prefix for del
	Val any    `json:"val"` // string (set/sine/append) or int (numeric); 0 / "" for del
	Tag string `json:"tag"` // set_sum: "set" | "sum"; "" otherwise
}

// Ordinals are logged as RANKS 0..6 (TLC integers are 32-bit and only the order matters); the real code receives
// realOrd(rank): ranks 5 and 6 stand for ordinals at and above 2^63 (a final write / clean-up at u64::MAX).
var bigOrds = map[uint64]uint64{5: 1<<63 + 1, 6: math.MaxUint64}

func realOrd(rank uint64) uint64 {
	if v, ok := bigOrds[rank]; ok {
		return v
	}
	return rank
}

func rankOf(ord uint64) uint64 {
	for k, v := range bigOrds {
		if v == ord {
			return k
		}
	}
	return ord
}

// issue performs the operation through the REAL host functions of wasm.Call.
func issue(c *wasm.Call, pol, vt string, o sop) {
	o.Ord = realOrd(o.Ord)
	if o.Op == "del" {
		c.DoDeletePrefix(o.Ord, o.Key)
		return
	}
	switch pol {
	case "set":
		c.DoSet(o.Ord, o.Key, []byte(o.Val.(string)))
	case "sine":
		c.DoSetIfNotExists(o.Ord, o.Key, []byte(o.Val.(string)))
	case "append":
		c.DoAppend(o.Ord, o.Key, []byte(o.Val.(string)))
	case "add", "min", "max":
		n := int64(o.Val.(int))
		s := strconv.FormatInt(n, 10)
		switch pol + ":" + vt {
		case "add:int64":
			c.DoAddInt64(o.Ord, o.Key, n)
		case "add:float64":
			c.DoAddFloat64(o.Ord, o.Key, float64(n))
		case "add:bigint":
			c.DoAddBigInt(o.Ord, o.Key, s)
		case "add:bigdecimal", "add:bigfloat":
			c.DoAddBigDecimal(o.Ord, o.Key, s)
		case "min:int64":
			c.DoSetMinInt64(o.Ord, o.Key, n)
		case "min:float64":
			c.DoSetMinFloat64(o.Ord, o.Key, float64(n))
		case "min:bigint":
			c.DoSetMinBigInt(o.Ord, o.Key, s)
		case "min:bigdecimal", "min:bigfloat":
			c.DoSetMinBigDecimal(o.Ord, o.Key, s)
		case "max:int64":
			c.DoSetMaxInt64(o.Ord, o.Key, n)
		case "max:float64":
			c.DoSetMaxFloat64(o.Ord, o.Key, float64(n))
		case "max:bigint":
			c.DoSetMaxBigInt(o.Ord, o.Key, s)
		case "max:bigdecimal", "max:bigfloat":
			c.DoSetMaxBigDecimal(o.Ord, o.Key, s)
		default:
			panic("harness: no host function for " + pol + ":" + vt)
		}
	case "set_sum":
		v := o.Tag + ":" + strconv.FormatInt(int64(o.Val.(int)), 10)
		switch vt {
		case "int64":
			c.DoSetSumInt64(o.Ord, o.Key, v)
		case "float64":
			c.DoSetSumFloat64(o.Ord, o.Key, v)
		case "bigint":
			c.DoSetSumBigInt(o.Ord, o.Key, v)
		case "bigdecimal":
			c.DoSetSumBigDecimal(o.Ord, o.Key, v)
		default:
			panic("harness: no host function for set_sum:" + vt)
		}
	}
}

// parseInt projects the bytes a numeric store holds onto the abstract integer, using the value type's own parser.
func parseInt(vt string, b []byte) (int64, bool) {
	s := string(b)
	switch vt {
	case "int64":
		n, err := strconv.ParseInt(s, 10, 64)
		return n, err == nil
	case "bigint":
		n, ok := new(big.Int).SetString(s, 10)
		if !ok || !n.IsInt64() {
			return 0, false
		}
		return n.Int64(), true
	case "float64":
		f, err := strconv.ParseFloat(s, 64)
		if err != nil || f != float64(int64(f)) {
			return 0, false
		}
		return int64(f), true
	case "bigdecimal", "bigfloat":
		d, err := decimal.NewFromString(s)
		if err != nil || !d.IsInteger() {
			return 0, false
		}
		return d.IntPart(), true
	}
	return 0, false
}

// proj: real bytes -> abstract typed value (string | int | [tag, int]); unparsable -> {"raw": hex}
func proj(pol, vt string, b []byte) any {
	switch pol {
	case "set", "sine", "append":
		return string(b)
	case "add", "min", "max":
		if n, ok := parseInt(vt, b); ok {
			return n
		}
	case "set_sum":
		if len(b) >= 4 && (string(b[:4]) == "set:" || string(b[:4]) == "sum:") {
			if n, ok := parseInt(vt, b[4:]); ok {
				return []any{string(b[:3]), n}
			}
		}
	}
	projFailed = true
	return map[string]string{"raw": hex.EncodeToString(b)}
}

// projFailed is set when some real value could not be projected onto the abstract value domain since the last record.
var projFailed bool

func takeUnparsed() bool { f := projFailed; projFailed = false; return f }

// projRead: what a reader sees (set_sum prefixes stripped by the store) -> [tag?] uniform with kv projection
func projRead(pol, vt string, b []byte) any {
	if pol == "set_sum" {
		if n, ok := parseInt(vt, b); ok {
			return n
		}
		projFailed = true
		return map[string]string{"raw": hex.EncodeToString(b)}
	}
	return proj(pol, vt, b)
}

func optRead(pol, vt string, found bool, v []byte) []any {
	if !found {
		return []any{}
	}
	return []any{projRead(pol, vt, v)}
}

type snap struct {
	KV     map[string]any `json:"kv"`
	Size   uint64         `json:"size"`   // SizeBytes() as reported
	Actual uint64         `json:"actual"` // sum over Iter of len(key)+len(value)
	Del    []string       `json:"del"`    // DeletedPrefixes (partial stores)
}

func snapOf(pol, vt string, s store.Store) snap {
	out := snap{KV: map[string]any{}, Del: []string{}}
	s.Iter(func(k string, v []byte) error {
		out.KV[k] = proj(pol, vt, v)
		out.Actual += uint64(len(k) + len(v))
		return nil
	})
	out.Size = s.SizeBytes()
	if p, ok := s.(*store.PartialKV); ok {
		out.Del = append(out.Del, p.DeletedPrefixes...)
	}
	return out
}

type jdelta struct {
	Op  string `json:"op"`
	Ord uint64 `json:"ord"`
	Key string `json:"key"`
	Old []any  `json:"old"`
	New []any  `json:"new"`
}

func deltasOf(pol, vt string, ds []*pbsubstreams.StoreDelta) []jdelta {
	out := []jdelta{}
	for _, d := range ds {
		j := jdelta{Ord: rankOf(d.Ordinal), Key: d.Key, Old: []any{}, New: []any{}}
		switch d.Operation {
		case pbsubstreams.StoreDelta_CREATE:
			j.Op = "C"
			j.New = []any{proj(pol, vt, d.NewValue)}
			if d.OldValue != nil {
				j.Old = []any{proj(pol, vt, d.OldValue)}
			}
		case pbsubstreams.StoreDelta_UPDATE:
			j.Op = "U"
			j.Old = []any{proj(pol, vt, d.OldValue)}
			j.New = []any{proj(pol, vt, d.NewValue)}
		case pbsubstreams.StoreDelta_DELETE:
			j.Op = "D"
			j.Old = []any{proj(pol, vt, d.OldValue)}
			if d.NewValue != nil {
				j.New = []any{proj(pol, vt, d.NewValue)}
			}
		default:
			j.Op = "?"
		}
		out = append(out, j)
	}
	return out
}

func rawDeltas(ds []*pbsubstreams.StoreDelta) string {
	var sb strings.Builder
	for _, d := range ds {
		fmt.Fprintf(&sb, "%d|%d|%q|%x|%x;", d.Operation, d.Ordinal, d.Key, d.OldValue, d.NewValue)
	}
	return sb.String()
}

// ------------------------------------------------------------------ the real objects of one chain

type chain struct {
	a       *args
	ctx     context.Context
	pol     polSpec
	vt      string
	cfg     *store.Config
	stats   *metrics.Stats
	keys    []string
	S       *store.FullKV    // sequential store: every block applied
	M       *store.FullKV    // merged store: receives the partials
	M2      *store.FullKV    // merged store fed with partials rebuilt from operation logs
	P       *store.PartialKV // current segment, executed
	P2      *store.PartialKV // current segment, rebuilt by ApplyOps (cached operation log)
	S2      *store.FullKV    // twin of S fed by ApplyOps
	segFrom uint64
	blk     uint64
	last    []*pbsubstreams.StoreDelta // deltas of the last block on S
	lastOps []sop
}

var chainSeq int
var baseStore dstore.Store
var sharedStats *metrics.Stats

func newChain(a *args, dir string, pol polSpec, vt string, keys []string, mode string) (*chain, error) {
	chainSeq++
	if baseStore == nil {
		url := "file://" + dir
		if os.Getenv("VERIF_STORE_MEM") != "" {
			url = "memory://vstore"
		}
		// no compression for the bulk of the chains: a zstd encoder initialisation costs ~1 ms per written file
		ds, err := dstore.NewStore(url, "", "", true)
		if err != nil {
			return nil, err
		}
		baseStore = ds
		sharedStats = metrics.NewReqStats(&metrics.Config{}, zap.NewNop())
	}
	cfg, err := store.NewConfig("st", 0, fmt.Sprintf("h%d", chainSeq%64), pol.policy, vt, baseStore)
	if err != nil {
		return nil, err
	}
	lg := zap.NewNop()
	c := &chain{a: a, ctx: context.Background(), pol: pol, vt: vt, cfg: cfg, keys: keys,
		stats: sharedStats,
		S:     cfg.NewFullKV(lg), M: cfg.NewFullKV(lg), M2: cfg.NewFullKV(lg), S2: cfg.NewFullKV(lg),
		P: cfg.NewPartialKV(0, lg), P2: cfg.NewPartialKV(0, lg)}
	sk := append([]string{}, keys...)
	sort.Strings(sk)
	a.emit(map[string]any{"ev": "reset", "pol": pol.name, "vt": vt, "keys": sk, "mode": mode})
	return c, nil
}

// exec runs one block's operations on st through a real wasm.Call + Flush, as StoreModuleExecutor does.
func (c *chain) exec(st store.Store, ops []sop) (perr string) {
	call := wasm.NewCall(&pbsubstreams.Clock{Number: c.blk}, "st", "st", c.stats, []wasm.Argument{
		wasm.NewStoreWriterOutput("st", st, c.pol.policy, c.vt)})
	perr = guard(func() {
		for _, o := range ops {
			issue(call, c.pol.name, c.vt, o)
		}
	})
	if perr != "" {
		return "issue: " + perr
	}
	if err := st.Flush(); err != nil {
		return "flush: " + err.Error()
	}
	return ""
}

type readRec struct {
	Kind  string `json:"kind"` // first last at
	Ord   uint64 `json:"ord"`
	Key   string `json:"key"`
	Got   []any  `json:"got"` // optional value as returned by Get*
	Found bool   `json:"found"`
	Has   bool   `json:"has"` // Has*
}

func (c *chain) reads(ords []uint64, keys []string) []readRec {
	call := wasm.NewCall(&pbsubstreams.Clock{Number: c.blk}, "rd", "rd", c.stats, []wasm.Argument{
		wasm.NewStoreReaderInput("st", c.S, 0)})
	out := []readRec{}
	for _, k := range keys {
		v, f := call.DoGetFirst(0, k)
		out = append(out, readRec{"first", 0, k, optRead(c.pol.name, c.vt, f, v), f, call.DoHasFirst(0, k)})
		v, f = call.DoGetLast(0, k)
		out = append(out, readRec{"last", 0, k, optRead(c.pol.name, c.vt, f, v), f, call.DoHasLast(0, k)})
		for _, o := range ords {
			v, f = call.DoGetAt(0, realOrd(o), k)
			out = append(out, readRec{"at", o, k, optRead(c.pol.name, c.vt, f, v), f, call.DoHasAt(0, realOrd(o), k)})
		}
	}
	return out
}

// block: the same operations on S (sequential) and P (current partial); S2/P2 get the operation log instead.
func (c *chain) block(ops []sop, readOrds []uint64, segmented bool) {
	rec := map[string]any{"ev": "block", "ops": ops, "err": "", "seg": segmented}
	pre := snapOf(c.pol.name, c.vt, c.S)
	rec["err"] = c.exec(c.S, ops)
	c.last = c.S.GetDeltas()
	c.lastOps = ops
	rec["pre"] = pre
	rec["deltas"] = deltasOf(c.pol.name, c.vt, c.last)
	rec["S"] = snapOf(c.pol.name, c.vt, c.S)
	rec["reads"] = c.reads(readOrds, c.keys)
	// operation log replay on the twin (C09)
	log := c.S.ReadOps()
	e2 := ""
	c.S2.Reset() // the pipeline resets every store at the end of each block (Stores.resetStores)
	c.P2.Reset()
	if err := c.S2.ApplyOps(log); err != nil {
		e2 = err.Error()
	}
	rec["S2"] = snapOf(c.pol.name, c.vt, c.S2)
	rec["deltas2"] = deltasOf(c.pol.name, c.vt, c.S2.GetDeltas())
	rec["rawEq"] = rawDeltas(c.last) == rawDeltas(c.S2.GetDeltas())
	rec["err2"] = e2
	if segmented {
		if e := c.exec(c.P, ops); e != "" {
			rec["err"] = rec["err"].(string) + " P:" + e
		}
		plog := c.P.ReadOps()
		if err := c.P2.ApplyOps(plog); err != nil {
			rec["err2"] = e2 + " P2:" + err.Error()
		}
		rec["P"] = snapOf(c.pol.name, c.vt, c.P)
		rec["P2"] = snapOf(c.pol.name, c.vt, c.P2)
	} else {
		rec["P"], rec["P2"] = snap{KV: map[string]any{}, Del: []string{}}, snap{KV: map[string]any{}, Del: []string{}}
	}
	c.blk++
	rec["unparsed"] = takeUnparsed()
	c.a.emitNT(rec, len(ops) > 1)
}

// cut: save the partial, reload it from its file, merge it into M; same for the replayed partial into M2.
func (c *chain) cut() {
	rec := map[string]any{"ev": "cut", "from": c.segFrom, "to": c.blk, "err": ""}
	merge := func(p *store.PartialKV, into *store.FullKV, tag string) (snap, snap) {
		file, w, err := p.Save(c.blk)
		if err == nil {
			err = w.Write(c.ctx)
		}
		if err != nil {
			rec["err"] = rec["err"].(string) + tag + " save: " + err.Error()
			return snap{}, snap{}
		}
		rec[tag+"file"] = file.Filename
		loaded := c.cfg.NewPartialKV(c.segFrom, zap.NewNop())
		if err := loaded.Load(c.ctx, file); err != nil {
			rec["err"] = rec["err"].(string) + tag + " load: " + err.Error()
			return snap{}, snap{}
		}
		ls := snapOf(c.pol.name, c.vt, loaded)
		if err := into.Merge(loaded); err != nil {
			rec["err"] = rec["err"].(string) + tag + " merge: " + err.Error()
		}
		// a partial for the same range must not collide with the twin's file
		loaded.DeleteStore(c.ctx, file)
		return ls, snapOf(c.pol.name, c.vt, into)
	}
	rec["saved"] = snapOf(c.pol.name, c.vt, c.P)
	rec["loaded"], rec["M"] = merge(c.P, c.M, "P")
	rec["loaded2"], rec["M2"] = merge(c.P2, c.M2, "P2")
	rec["S"] = snapOf(c.pol.name, c.vt, c.S)
	// full snapshot round trip of M at the boundary (C10/C11)
	if file, w, err := c.M.Save(c.blk); err == nil && w.Write(c.ctx) == nil {
		fl := c.cfg.NewFullKV(zap.NewNop())
		if err := fl.Load(c.ctx, file); err != nil {
			rec["err"] = rec["err"].(string) + " fullload: " + err.Error()
		}
		rec["Mloaded"] = snapOf(c.pol.name, c.vt, fl)
		rec["Mfile"] = file.Filename
	} else {
		rec["Mloaded"] = snap{KV: map[string]any{}, Del: []string{}}
		rec["Mfile"] = ""
		rec["err"] = rec["err"].(string) + " fullsave failed"
	}
	c.segFrom = c.blk
	lg := zap.NewNop()
	c.P, c.P2 = c.cfg.NewPartialKV(c.blk, lg), c.cfg.NewPartialKV(c.blk, lg)
	rec["unparsed"] = takeUnparsed()
	c.a.emitNT(rec, true)
}

// undo: reverse the last block's deltas on S (what the fork handler does), redo: apply the same block again.
func (c *chain) undo() {
	rec := map[string]any{"ev": "undo", "err": "", "deltas": deltasOf(c.pol.name, c.vt, c.last)}
	rec["pre"] = snapOf(c.pol.name, c.vt, c.S)
	rec["err"] = guard(func() { c.S.ApplyDeltasReverse(c.last) })
	c.S.Reset()
	rec["S"] = snapOf(c.pol.name, c.vt, c.S)
	// keep the ApplyOps twin in step
	guard(func() { c.S2.ApplyDeltasReverse(c.last) })
	c.S2.Reset()
	rec["unparsed"] = takeUnparsed()
	c.a.emitNT(rec, len(c.last) > 1)
}

func (c *chain) saveload() {
	rec := map[string]any{"ev": "saveload", "err": ""}
	rec["pre"] = snapOf(c.pol.name, c.vt, c.S)
	file, w, err := c.S.Save(c.blk + 1000)
	if err == nil {
		err = w.Write(c.ctx)
	}
	if err != nil {
		rec["err"] = err.Error()
	} else {
		n := c.cfg.NewFullKV(zap.NewNop())
		if err := n.Load(c.ctx, file); err != nil {
			rec["err"] = err.Error()
		} else {
			c.S = n
		}
	}
	rec["S"] = snapOf(c.pol.name, c.vt, c.S)
	rec["unparsed"] = takeUnparsed()
	c.a.emitNT(rec, len(rec["pre"].(snap).KV) > 0)
}

// ------------------------------------------------------------------ generators

var smallKeys = []string{"a", "ab", "b"}
var prefixes = []string{"", "a", "ab", "b"}

func valFor(pol string, i int) any {
	switch pol {
	case "set", "sine", "append":
		return []string{"x", "yy", ""}[i%3]
	default:
		return []int{-1, 1, 2}[i%3]
	}
}

// allOps: the operation alphabet of the exhaustive small scope
func allOps(pol string, ords []uint64, nvals int) []sop {
	out := []sop{}
	for _, o := range ords {
		for _, k := range smallKeys {
			for v := 0; v < nvals; v++ {
				if pol == "set_sum" {
					out = append(out, sop{"w", o, k, valFor(pol, v), "set"}, sop{"w", o, k, valFor(pol, v), "sum"})
				} else {
					out = append(out, sop{"w", o, k, valFor(pol, v), ""})
				}
			}
		}
		for _, p := range prefixes {
			var z any = 0
			if !isNumeric(pol) {
				z = ""
			}
			out = append(out, sop{"del", o, p, z, ""})
		}
	}
	return out
}

func randOps(r *rand.Rand, pol string, keys []string, n int, maxOrd int) []sop {
	ops := []sop{}
	for i := 0; i < n; i++ {
		ord := uint64(r.Intn(maxOrd))
		if r.Intn(6) == 0 {
			k := keys[r.Intn(len(keys))]
			p := k[:r.Intn(len(k)+1)]
			var z any = 0
			if !isNumeric(pol) {
				z = ""
			}
			ops = append(ops, sop{"del", ord, p, z, ""})
			continue
		}
		o := sop{Op: "w", Ord: ord, Key: keys[r.Intn(len(keys))]}
		if isNumeric(pol) {
			o.Val = r.Intn(41) - 20
		} else {
			o.Val = []string{"", "x", "yy", "zzz", "a longer value"}[r.Intn(5)]
		}
		if pol == "set_sum" {
			o.Tag = []string{"set", "sum", "sum"}[r.Intn(3)]
		}
		ops = append(ops, o)
	}
	return ops
}

var bigKeys = []string{"a", "ab", "abc", "b", "ba", "bb", "c", "ca", "k1", "k10", "k2", "z", "zz", "zzz", "m", "ma"}

func runStore(a *args) error {
	dir, err := os.MkdirTemp("", "vstore-")
	if err != nil {
		return err
	}
	defer os.RemoveAll(dir)
	r := rand.New(rand.NewSource(a.seed))
	ords3 := []uint64{0, 1, 2, 3}
	thorough := a.tier == "thorough"

	for _, pol := range polSpecs {
		if os.Getenv("VERIF_ONLYPOL") != "" && os.Getenv("VERIF_ONLYPOL") != pol.name {
			continue
		}
		for vi, vt := range pol.vts {
			// (1) exhaustive small scope: every pre-content over the keys reachable by one block of <=2 ops, then
			// every block of <=2 ops (ordinals {0,1}) on top; reads at every ordinal 0..3 for every key.  For the first
			// value type of each policy the second block ranges over ALL pairs; for the others over a seeded sample.
			alpha := allOps(pol.name, []uint64{0, 1}, 2)
			pres := [][]sop{{}}
			for _, o := range allOps(pol.name, []uint64{0}, 2) {
				if o.Op == "w" {
					pres = append(pres, []sop{o})
				}
			}
			pres = append(pres, []sop{{"w", 0, "a", valFor(pol.name, 0), "sum"}, {"w", 0, "ab", valFor(pol.name, 1), "set"}, {"w", 0, "b", valFor(pol.name, 2), "sum"}})
			for _, pre := range pres {
				var blocks [][]sop
				for i, o1 := range alpha {
					blocks = append(blocks, []sop{o1})
					for j, o2 := range alpha {
						if vi == 0 && (thorough || (i+j)%3 == 0) || r.Intn(40) == 0 {
							blocks = append(blocks, []sop{o1, o2})
						}
					}
				}
				for _, b := range blocks {
					c, err := newChain(a, dir, pol, vt, smallKeys, "small")
					if err != nil {
						return err
					}
					if len(pre) > 0 {
						c.block(pre, nil, true)
						c.cut()
					}
					c.block(b, ords3, true)
					c.cut()
					c.undoRedoTail(r)
				}
			}
			// (2) random chains far outside the exhaustive scope
			n := 60
			if thorough {
				n = 1200
			}
			if a.n > 0 {
				n = a.n
			}
			for i := 0; i < n; i++ {
				keys := bigKeys[:3+r.Intn(len(bigKeys)-2)]
				if r.Intn(2) == 0 {
					c, err := newChain(a, dir, pol, vt, keys, "segmented")
					if err != nil {
						return err
					}
					nb := 2 + r.Intn(10)
					for b := 0; b < nb; b++ {
						nops, maxOrd := r.Intn(7), 5
						if r.Intn(4) == 0 { // long blocks with many ties on the ordinal (stability of the sort)
							nops, maxOrd = 13+r.Intn(40), 1+r.Intn(4)
						} else if r.Intn(3) == 0 { // ordinals up to u64::MAX (ranks 5 and 6)
							maxOrd = 7
						}
						c.block(randOps(r, pol.name, keys, nops, maxOrd), []uint64{0, 1, 2, 3, 4, 5, 6}, true)
						if r.Intn(3) == 0 {
							c.cut()
						}
					}
					c.cut()
				} else {
					c, err := newChain(a, dir, pol, vt, keys, "reorg")
					if err != nil {
						return err
					}
					nb := 3 + r.Intn(10)
					for b := 0; b < nb; b++ {
						nops, maxOrd := r.Intn(7), 5
						if r.Intn(4) == 0 {
							nops, maxOrd = 13+r.Intn(40), 1+r.Intn(4)
						}
						ops := randOps(r, pol.name, keys, nops, maxOrd)
						c.block(ops, []uint64{0, 2, 4}, false)
						switch r.Intn(5) {
						case 0: // undo then re-apply the same block, possibly twice (chain flipping back and forth)
							for k := 0; k < 1+r.Intn(2); k++ {
								c.undo()
								c.block(ops, nil, false)
							}
						case 1:
							c.undo()
						case 2:
							c.saveload()
						}
					}
				}
			}
		}
	}
	return nil
}

// undoRedoTail: after a small-scope chain, reverse the last block on S and apply it again (C11/C03 at store level)
func (c *chain) undoRedoTail(r *rand.Rand) {
	if len(c.last) == 0 {
		return
	}
	c.undo()
	c.block(c.lastOps, nil, false)
}
