package main

import (
	"context"
	"encoding/json"
	"fmt"
	"strconv"
	"strings"
	"sync"

	pbindex "github.com/streamingfast/substreams/pb/sf/substreams/index/v1"
	pbsubstreams "github.com/streamingfast/substreams/pb/sf/substreams/v1"
	"github.com/streamingfast/substreams/wasm"
	"google.golang.org/protobuf/proto"
)

// verifvm: a Go-native module runtime registered through the PUBLIC wasm.RegisterModuleFactory and selected with
// SUBSTREAMS_WASM_RUNTIME=verifvm.  A "binary" is the JSON text of a program: entrypoint -> body.  Its semantics is also
// defined in spec/Exec.tla (the reference the end-to-end traces are judged against).  Inputs are addressed BY POSITION.
// All values are small integers; it calls the REAL wasm.Call.Do* host functions for every store access.

type vterm struct {
	T   string `json:"t"`   // const num branch in get has dcount dsum
	C   int64  `json:"c"`   // coefficient
	I   int    `json:"i"`   // input position
	Key string `json:"key"` // get/has: key
	How string `json:"how"` // first last at
	Ord uint64 `json:"ord"`
	Num bool   `json:"num"` // the store read holds numbers (else: the length of the value is used)
}

type vwhen struct {
	Mod uint64   `json:"mod"`
	Res []uint64 `json:"res"`
}

type vop struct {
	Op   string  `json:"op"`  // w del
	Ord  uint64  `json:"ord"` //
	Base uint64  `json:"base"`
	Step uint64  `json:"step"`
	Pfx  string  `json:"pfx"` // del: prefix
	Val  []vterm `json:"val"`
	When vwhen   `json:"when"`
	Tag  string  `json:"tag"`
}

type vkey struct {
	Key  string `json:"key"`
	When vwhen  `json:"when"`
}

type vbody struct {
	Kind      string  `json:"kind"` // map store index
	Emit      vwhen   `json:"emit"`
	SkipEmpty bool    `json:"skipEmpty"`
	FailAt    int64   `json:"failAt"` // -1 = never
	Terms     []vterm `json:"terms"`
	Ops       []vop   `json:"ops"`
	Keys      []vkey  `json:"keys"`
	Pol       string  `json:"pol"` // store: spec policy name
	VT        string  `json:"vt"`
}

var vmKeys = []string{"a", "ab", "b", "ba"}

func (w vwhen) holds(n uint64) bool {
	if w.Mod == 0 {
		return true
	}
	for _, r := range w.Res {
		if n%w.Mod == r {
			return true
		}
	}
	return false
}

type vmModule struct {
	prog map[string]vbody
}

type vmInstance struct{}

func (vmInstance) Cleanup(context.Context) error { return nil }
func (vmInstance) Close(context.Context) error   { return nil }

var vmOnce sync.Once

func registerVerifVM() {
	vmOnce.Do(func() {
		wasm.RegisterModuleFactory("verifvm", wasm.ModuleFactoryFunc(func(ctx context.Context, code []byte, codeType string, _ *wasm.Registry) (wasm.Module, error) {
			m := &vmModule{prog: map[string]vbody{}}
			if err := json.Unmarshal(code, &m.prog); err != nil {
				return nil, fmt.Errorf("verifvm: not a program: %w", err)
			}
			return m, nil
		}))
	})
}

func (m *vmModule) NewInstance(context.Context) (wasm.Instance, error) { return vmInstance{}, nil }
func (m *vmModule) Close(context.Context) error                        { return nil }

func branchOf(id string) int64 {
	if id == "" {
		return 0
	}
	c := id[len(id)-1]
	if c >= 'a' && c <= 'z' {
		return int64(c - 'a')
	}
	return 0
}

func atoiBytes(b []byte) int64 {
	n, _ := strconv.ParseInt(strings.TrimSuffix(string(b), ";"), 10, 64)
	return n
}

// numOf: integer reading of a stored value (numeric stores: the number; string stores: its length)
func numOf(numeric bool, b []byte) int64 {
	if numeric {
		f, err := strconv.ParseFloat(string(b), 64)
		if err != nil {
			return 0
		}
		return int64(f)
	}
	return int64(len(b))
}

type vmArg struct {
	kind     string // value | store
	val      []byte
	present  bool
	storeIdx int
	deltas   bool
}

func (m *vmModule) ExecuteNewCall(ctx context.Context, call *wasm.Call, _ wasm.Instance, arguments []wasm.Argument, argValues map[string][]byte) (wasm.Instance, error) {
	body, ok := m.prog[call.Entrypoint]
	if !ok {
		return vmInstance{}, fmt.Errorf("verifvm: no entrypoint %q", call.Entrypoint)
	}
	n := call.Clock.Number
	if body.FailAt >= 0 && uint64(body.FailAt) == n {
		call.SetPanicError(fmt.Sprintf("verifvm: deterministic failure at block %d", n), "verifvm", 1, 1)
		return vmInstance{}, nil
	}
	var args []vmArg
	stores := 0
	for _, a := range arguments {
		switch v := a.(type) {
		case *wasm.StoreWriterOutput:
		case *wasm.StoreReaderInput:
			args = append(args, vmArg{kind: "store", storeIdx: stores})
			stores++
		case *wasm.ParamsInput:
			args = append(args, vmArg{kind: "value", val: v.Value(), present: true})
		case *wasm.StoreDeltaInput:
			val := argValues[v.Name()]
			args = append(args, vmArg{kind: "value", val: val, present: val != nil, deltas: true})
		default:
			val := argValues[a.Name()]
			args = append(args, vmArg{kind: "value", val: val, present: val != nil})
		}
	}
	eval := func(ts []vterm) int64 {
		var sum int64
		for _, t := range ts {
			switch t.T {
			case "const":
				sum += t.C
			case "num":
				sum += t.C * int64(n)
			case "branch":
				sum += t.C * branchOf(call.Clock.Id)
			case "in":
				if t.I < len(args) && args[t.I].kind == "value" && args[t.I].present {
					sum += t.C * atoiBytes(args[t.I].val)
				}
			case "dcount", "dsum":
				// store inputs in deltas mode are handed over as plain value inputs holding marshalled StoreDeltas
				if t.I < len(args) && args[t.I].kind == "value" && args[t.I].present {
					ds := &pbsubstreams.StoreDeltas{}
					if err := proto.Unmarshal(args[t.I].val, ds); err == nil {
						for _, d := range ds.StoreDeltas {
							if t.T == "dcount" {
								sum += t.C
							} else {
								v := d.NewValue
								if len(v) > 4 && (string(v[:4]) == "sum:" || string(v[:4]) == "set:") {
									v = v[4:]
								}
								sum += t.C * numOf(t.Num, v)
							}
						}
					}
				}
			case "get", "has":
				if t.I < len(args) && args[t.I].kind == "store" {
					var v []byte
					var f bool
					si := args[t.I].storeIdx
					if t.T == "get" {
						switch t.How {
						case "first":
							v, f = call.DoGetFirst(si, t.Key)
						case "at":
							v, f = call.DoGetAt(si, t.Ord, t.Key)
						default:
							v, f = call.DoGetLast(si, t.Key)
						}
						if f {
							sum += t.C * numOf(t.Num, v)
						}
					} else {
						switch t.How {
						case "first":
							f = call.DoHasFirst(si, t.Key)
						case "at":
							f = call.DoHasAt(si, t.Ord, t.Key)
						default:
							f = call.DoHasLast(si, t.Key)
						}
						if f {
							sum += t.C
						}
					}
				}
			}
		}
		return sum
	}
	switch body.Kind {
	case "map":
		if body.SkipEmpty {
			call.SkipEmptyOutput()
		}
		if body.Emit.holds(n) {
			call.SetReturnValue([]byte(strconv.FormatInt(eval(body.Terms), 10)))
		}
	case "index":
		ks := &pbindex.Keys{}
		for _, k := range body.Keys {
			if k.When.holds(n) {
				ks.Keys = append(ks.Keys, k.Key)
			}
		}
		b, _ := proto.Marshal(ks)
		call.SetReturnValue(b)
	case "store":
		for _, o := range body.Ops {
			if !o.When.holds(n) {
				continue
			}
			if o.Op == "del" {
				call.DoDeletePrefix(o.Ord, o.Pfx)
				continue
			}
			key := vmKeys[(o.Base+o.Step*n)%uint64(len(vmKeys))]
			v := eval(o.Val)
			so := sop{Op: "w", Ord: o.Ord, Key: key, Tag: o.Tag}
			if isNumeric(body.Pol) {
				so.Val = int(v)
			} else {
				so.Val = strconv.FormatInt(v, 10) + ";"
			}
			issue(call, body.Pol, body.VT, so)
		}
	}
	return vmInstance{}, nil
}
