package main

import (
	"fmt"
	"math/rand"
	"os"
	"time"

	"github.com/streamingfast/substreams/manifest"
	pbsubstreams "github.com/streamingfast/substreams/pb/sf/substreams/v1"
	"github.com/streamingfast/substreams/pipeline/exec"
)

func init() {
	register("graph", runGraph)
	register("sig", runSig)
}

// ------------------------------------------------------------------ abstract module graphs

type ainput struct {
	K    string `json:"k"`    // source params map store
	V    string `json:"v"`    // source type / params value / module name
	Mode string `json:"mode"` // store: get | deltas ; "" otherwise
}

type amod struct {
	Name   string   `json:"name"`
	Kind   string   `json:"kind"` // map store index
	Init   uint64   `json:"init"`
	Code   string   `json:"code"` // binary content (one binary per distinct code)
	Entry  string   `json:"entry"`
	Inputs []ainput `json:"inputs"`
	Filter []string `json:"filter"` // [] or [index module, query]
}

type agraph []amod

func (g agraph) clone() agraph {
	out := make(agraph, len(g))
	for i, m := range g {
		m.Inputs = append([]ainput{}, m.Inputs...)
		m.Filter = append([]string{}, m.Filter...)
		out[i] = m
	}
	return out
}

// toProto materialises the graph; binOrder permutes the binaries list (identity-preserving transformation).
func (g agraph) toProto(binShift int) *pbsubstreams.Modules {
	out := &pbsubstreams.Modules{}
	binIdx := map[string]int{}
	var codes []string
	for _, m := range g {
		if _, ok := binIdx[m.Code]; !ok {
			binIdx[m.Code] = len(codes)
			codes = append(codes, m.Code)
		}
	}
	n := len(codes)
	pos := func(i int) int { return (i + binShift) % n }
	out.Binaries = make([]*pbsubstreams.Binary, n)
	for c, i := range binIdx {
		out.Binaries[pos(i)] = &pbsubstreams.Binary{Type: "wasm/rust-v1", Content: []byte(c)}
	}
	for _, m := range g {
		pm := &pbsubstreams.Module{Name: m.Name, InitialBlock: m.Init, BinaryIndex: uint32(pos(binIdx[m.Code])), BinaryEntrypoint: m.Entry}
		switch m.Kind {
		case "map":
			pm.Kind = &pbsubstreams.Module_KindMap_{KindMap: &pbsubstreams.Module_KindMap{OutputType: "proto:verif.Out"}}
			pm.Output = &pbsubstreams.Module_Output{Type: "proto:verif.Out"}
		case "store":
			pm.Kind = &pbsubstreams.Module_KindStore_{KindStore: &pbsubstreams.Module_KindStore{UpdatePolicy: pbsubstreams.Module_KindStore_UPDATE_POLICY_ADD, ValueType: "int64"}}
		case "index":
			pm.Kind = &pbsubstreams.Module_KindBlockIndex_{KindBlockIndex: &pbsubstreams.Module_KindBlockIndex{OutputType: "proto:sf.substreams.index.v1.Keys"}}
			pm.Output = &pbsubstreams.Module_Output{Type: "proto:sf.substreams.index.v1.Keys"}
		}
		for _, in := range m.Inputs {
			switch in.K {
			case "source":
				pm.Inputs = append(pm.Inputs, inSource(in.V))
			case "params":
				pm.Inputs = append(pm.Inputs, inParams(in.V))
			case "map":
				pm.Inputs = append(pm.Inputs, inMap(in.V))
			case "store":
				pm.Inputs = append(pm.Inputs, inStore(in.V, in.Mode == "deltas"))
			}
		}
		if len(m.Filter) == 2 {
			pm.BlockFilter = &pbsubstreams.Module_BlockFilter{Module: m.Filter[0], Query: &pbsubstreams.Module_BlockFilter_QueryString{QueryString: m.Filter[1]}}
		}
		out.Modules = append(out.Modules, pm)
	}
	return out
}

// randGraph: a random acyclic graph in topological order (then optionally shuffled in the module list).
// filterRich makes randGraph produce many block-index modules and block filters (several index ancestors per module).
var filterRich bool

func randGraph(r *rand.Rand, n int) agraph {
	var g agraph
	kindsOf := func(k string) []string {
		var out []string
		for _, m := range g {
			if m.Kind == k {
				out = append(out, m.Name)
			}
		}
		return out
	}
	initOf := func(name string) uint64 {
		for _, m := range g {
			if m.Name == name {
				return m.Init
			}
		}
		return 0
	}
	inits := []uint64{0, 0, 0, 5, 10, 20}
	for i := 0; i < n; i++ {
		m := amod{Name: fmt.Sprintf("m%d", i), Code: fmt.Sprintf("code-%d", i%3), Entry: fmt.Sprintf("entry_%d", i), Filter: []string{}, Inputs: []ainput{}}
		switch r.Intn(10) {
		case 0, 1, 2:
			m.Kind = "store"
		case 3:
			m.Kind = "index"
		default:
			m.Kind = "map"
			if filterRich && r.Intn(3) == 0 {
				m.Kind = "index"
			}
		}
		m.Init = inits[r.Intn(len(inits))]
		maps, stores, idxs := kindsOf("map"), kindsOf("store"), kindsOf("index")
		// input shapes
		switch {
		case r.Intn(12) == 0:
			m.Inputs = []ainput{{K: "params", V: paramValue(r)}} // params-only module
		case r.Intn(12) == 0:
			m.Inputs = []ainput{{K: "source", V: "sf.substreams.v1.Clock"}} // clock-only module
		default:
			if r.Intn(5) == 0 {
				m.Inputs = append(m.Inputs, ainput{K: "params", V: paramValue(r)})
			}
			if r.Intn(3) == 0 || (len(maps) == 0 && len(stores) == 0) {
				m.Inputs = append(m.Inputs, ainput{K: "source", V: blockType})
			}
			used := map[string]bool{}
			for k := r.Intn(4); k > 0; k-- {
				if len(maps) > 0 && (r.Intn(2) == 0 || len(stores) == 0) {
					d := maps[r.Intn(len(maps))]
					if !used[d] {
						used[d] = true
						m.Inputs = append(m.Inputs, ainput{K: "map", V: d})
					}
				} else if len(stores) > 0 {
					d := stores[r.Intn(len(stores))]
					if !used[d] {
						used[d] = true
						mode := "get"
						if r.Intn(3) == 0 {
							mode = "deltas"
						}
						m.Inputs = append(m.Inputs, ainput{K: "store", V: d, Mode: mode})
					}
				}
			}
			if len(m.Inputs) == 0 || (len(m.Inputs) == 1 && m.Inputs[0].K == "params" && r.Intn(2) == 0) {
				m.Inputs = append(m.Inputs, ainput{K: "source", V: blockType})
			}
		}
		if m.Kind != "index" && len(idxs) > 0 && (r.Intn(4) == 0 || (filterRich && r.Intn(3) != 0)) {
			ix := idxs[r.Intn(len(idxs))]
			if initOf(ix) <= m.Init {
				m.Filter = []string{ix, []string{"a", "a || b", "(a && b) || c"}[r.Intn(3)]}
			}
		}
		// mostly keep initial blocks consistent with the dependencies, sometimes not (must then be rejected or still staged right)
		if r.Intn(6) != 0 {
			for _, in := range m.Inputs {
				if (in.K == "map" || in.K == "store") && initOf(in.V) > m.Init {
					m.Init = initOf(in.V)
				}
			}
			if len(m.Filter) == 2 && initOf(m.Filter[0]) > m.Init {
				m.Init = initOf(m.Filter[0])
			}
		}
		g = append(g, m)
	}
	if r.Intn(2) == 0 { // the module list need not be in dependency order
		r.Shuffle(len(g), func(i, j int) { g[i], g[j] = g[j], g[i] })
	}
	return g
}

type stagingObs struct {
	Err    string       `json:"err"`
	Stages [][][]string `json:"stages"`
	Used   []string     `json:"used"`
	Stores []string     `json:"stores"`
	Hung   bool         `json:"hung"`
	Panic  string       `json:"panic"`
}

// stage runs the real exec.NewOutputModuleGraph under a watchdog.
func stageObs(mods *pbsubstreams.Modules, out string, prod bool) (o stagingObs) {
	o = stagingObs{Stages: [][][]string{}, Used: []string{}, Stores: []string{}}
	done := make(chan stagingObs, 1)
	go func() {
		res := stagingObs{Stages: [][][]string{}, Used: []string{}, Stores: []string{}}
		res.Panic = guard(func() {
			g, err := exec.NewOutputModuleGraph(out, prod, mods, 0)
			if err != nil {
				res.Err = err.Error()
				return
			}
			for _, st := range g.StagedUsedModules() {
				var ls [][]string
				for _, ly := range st {
					var ns []string
					for _, m := range ly {
						ns = append(ns, m.Name)
					}
					ls = append(ls, ns)
				}
				res.Stages = append(res.Stages, ls)
			}
			for _, m := range g.UsedModules() {
				res.Used = append(res.Used, m.Name)
			}
			for _, m := range g.Stores() {
				res.Stores = append(res.Stores, m.Name)
			}
		})
		done <- res
	}()
	select {
	case r := <-done:
		return r
	case <-time.After(3 * time.Second):
		o.Hung = true
		return o
	}
}

func runGraph(a *args) error {
	r := rand.New(rand.NewSource(a.seed))
	n := 4000
	if a.tier == "thorough" {
		n = 120000
	}
	if a.n > 0 {
		n = a.n
	}
	for i := 0; i < n; i++ {
		size := 1 + r.Intn(6)
		if i%4 == 0 {
			size = 4 + r.Intn(9)
		}
		g := randGraph(r, size)
		mods := g.toProto(0)
		valid := manifest.ValidateModules(mods) == nil
		for _, m := range g {
			if r.Intn(3) != 0 && len(g) > 3 {
				continue // every output module for small graphs, a sample for larger ones
			}
			obs := stageObs(mods, m.Name, r.Intn(2) == 0)
			a.emitNT(map[string]any{"k": "stage", "g": g, "out": m.Name, "valid": valid, "obs": obs}, len(obs.Used) > 2)
		}
	}
	return nil
}

// ------------------------------------------------------------------ C06: identifiers under mutation / transformation

func hashesOf(mods *pbsubstreams.Modules, only ...string) (map[string]string, string) {
	out := map[string]string{}
	errs := ""
	want := map[string]bool{}
	for _, n := range only {
		want[n] = true
	}
	for _, m := range mods.Modules {
		name := m.Name
		if len(only) > 0 && !want[name] {
			continue
		}
		p := guard(func() {
			g, err := exec.NewOutputModuleGraph(name, true, mods, 0)
			if err != nil {
				errs += name + ": " + err.Error() + "; "
				return
			}
			out[name] = g.ModuleHashes().Get(name)
		})
		if p != "" {
			errs += name + ": panic " + p + "; "
		}
	}
	return out, errs
}

type mutation struct {
	Kind   string `json:"kind"`
	Module string `json:"module"`
	Detail string `json:"detail"`
}

// mutate applies one single-field mutation to module index i; ok=false when the mutation does not apply.
func mutate(r *rand.Rand, g agraph, i int, kind string) (agraph, mutation, bool) {
	h := g.clone()
	m := &h[i]
	mu := mutation{Kind: kind, Module: m.Name}
	byKind := func(k string, except string) []string {
		var out []string
		for _, x := range g {
			if x.Kind == k && x.Name != except {
				out = append(out, x.Name)
			}
		}
		return out
	}
	idxOf := func(k string) []int {
		var out []int
		for j, in := range m.Inputs {
			if in.K == k {
				out = append(out, j)
			}
		}
		return out
	}
	switch kind {
	case "code":
		m.Code += "+"
	case "entrypoint":
		m.Entry += "_x"
	case "initial_block":
		m.Init += 1
	case "kind":
		if m.Kind == "map" {
			m.Kind = "index"
		} else if m.Kind == "index" {
			m.Kind = "map"
		} else {
			return nil, mu, false
		}
	case "param_value":
		js := idxOf("params")
		if len(js) == 0 {
			return nil, mu, false
		}
		// a parameter value is free text handed to the module as is: a change in whitespace only is a change too
		m.Inputs[js[0]].V = []string{m.Inputs[js[0]].V + "0", m.Inputs[js[0]].V + " ", " " + m.Inputs[js[0]].V, m.Inputs[js[0]].V + "\n"}[r.Intn(4)]
	case "source_type":
		js := idxOf("source")
		if len(js) == 0 {
			return nil, mu, false
		}
		if m.Inputs[js[0]].V == blockType {
			m.Inputs[js[0]].V = "sf.substreams.v1.Clock"
		} else {
			m.Inputs[js[0]].V = blockType
		}
	case "filter_query":
		if len(m.Filter) != 2 {
			return nil, mu, false
		}
		m.Filter[1] += " || z"
	case "filter_module":
		if len(m.Filter) != 2 {
			return nil, mu, false
		}
		c := byKind("index", m.Filter[0])
		var ok2 []string
		for _, name := range c { // keep the graph acyclic and valid: an index created before this module, init not above
			var a, b int
			fmt.Sscanf(name, "m%d", &a)
			fmt.Sscanf(m.Name, "m%d", &b)
			if a < b {
				ok2 = append(ok2, name)
			}
		}
		if len(ok2) == 0 {
			return nil, mu, false
		}
		// prefer an index module that is ALREADY an ancestor through another path (the ancestor set then stays the same)
		anc := ancestorsOf(g, m.Name)
		var inside []string
		for _, name := range ok2 {
			if anc[name] {
				inside = append(inside, name)
			}
		}
		if len(inside) > 0 && r.Intn(4) != 0 {
			ok2 = inside
			mu.Detail = "inside_ancestors"
		}
		m.Filter[0] = ok2[r.Intn(len(ok2))]
	case "add_input", "remove_input":
		if kind == "remove_input" {
			if len(m.Inputs) < 2 {
				return nil, mu, false
			}
			j := r.Intn(len(m.Inputs))
			m.Inputs = append(m.Inputs[:j:j], m.Inputs[j+1:]...)
		} else {
			m.Inputs = append(m.Inputs, ainput{K: "source", V: "sf.substreams.v1.Clock"})
		}
	case "swap_inputs_different_kind", "swap_inputs_same_kind":
		found := false
		for j := 0; j+1 < len(m.Inputs) && !found; j++ {
			same := m.Inputs[j].K == m.Inputs[j+1].K
			if (kind == "swap_inputs_same_kind") == same && m.Inputs[j] != m.Inputs[j+1] {
				if same && m.Inputs[j].K != "map" && m.Inputs[j].K != "store" {
					continue
				}
				m.Inputs[j], m.Inputs[j+1] = m.Inputs[j+1], m.Inputs[j]
				found = true
			}
		}
		if !found {
			return nil, mu, false
		}
	case "store_input_mode":
		js := idxOf("store")
		if len(js) == 0 {
			return nil, mu, false
		}
		j := js[r.Intn(len(js))]
		if m.Inputs[j].Mode == "get" {
			m.Inputs[j].Mode = "deltas"
		} else {
			m.Inputs[j].Mode = "get"
		}
	case "retarget_input":
		var js []int
		for j, in := range m.Inputs {
			if in.K == "map" || in.K == "store" {
				js = append(js, j)
			}
		}
		if len(js) == 0 {
			return nil, mu, false
		}
		j := js[r.Intn(len(js))]
		kk := "map"
		if m.Inputs[j].K == "store" {
			kk = "store"
		}
		var c []string
		pos := map[string]int{}
		for p, x := range g {
			pos[x.Name] = p
		}
		for _, name := range byKind(kk, m.Inputs[j].V) {
			// keep the graph acyclic: only modules created before this one (names are m<k> in creation order)
			var a, b int
			fmt.Sscanf(name, "m%d", &a)
			fmt.Sscanf(m.Name, "m%d", &b)
			dup := false
			for _, in := range m.Inputs {
				if in.V == name {
					dup = true
				}
			}
			if a < b && !dup {
				c = append(c, name)
			}
		}
		if len(c) == 0 {
			return nil, mu, false
		}
		mu.Detail = m.Inputs[j].V + "->"
		m.Inputs[j].V = c[r.Intn(len(c))]
		mu.Detail += m.Inputs[j].V
	default:
		return nil, mu, false
	}
	return h, mu, true
}

// structuredGraphs: hand-made shapes in which a module reaches the same ancestors through several paths
// (names are m<k> in dependency order, as randGraph produces them).
func structuredGraphs() []agraph {
	src := ainput{K: "source", V: blockType}
	mk := func(i int, kind string, init uint64, filter []string, ins ...ainput) amod {
		if filter == nil {
			filter = []string{}
		}
		return amod{Name: fmt.Sprintf("m%d", i), Kind: kind, Init: init, Code: fmt.Sprintf("code-%d", i%2), Entry: fmt.Sprintf("entry_%d", i), Inputs: ins, Filter: filter}
	}
	mp := func(n string) ainput { return ainput{K: "map", V: n} }
	st := func(n, mode string) ainput { return ainput{K: "store", V: n, Mode: mode} }
	return []agraph{
		{ // two index modules, both ancestors of m4 through the filtered mappers m2 and m3; m4 itself filtered by m0
			mk(0, "index", 0, nil, src), mk(1, "index", 0, nil, src),
			mk(2, "map", 0, []string{"m0", "a"}, src), mk(3, "map", 0, []string{"m1", "a || b"}, src),
			mk(4, "map", 0, []string{"m0", "a"}, mp("m2"), mp("m3")), mk(5, "store", 0, nil, mp("m4")), mk(6, "map", 0, nil, st("m5", "deltas")),
		},
		{ // stores read in both modes, several paths to the same store
			mk(0, "map", 0, nil, src), mk(1, "store", 0, nil, mp("m0")), mk(2, "store", 5, nil, mp("m0"), st("m1", "get")),
			mk(3, "map", 5, nil, st("m1", "deltas"), st("m2", "get")), mk(4, "map", 5, nil, mp("m0"), mp("m3"), st("m1", "get")),
		},
		{ // params-only, clock-only and mixed inputs
			mk(0, "map", 0, nil, ainput{K: "params", V: "p=1"}), mk(1, "map", 0, nil, ainput{K: "source", V: "sf.substreams.v1.Clock"}),
			mk(2, "store", 0, nil, ainput{K: "params", V: "q"}, mp("m0"), mp("m1")), mk(3, "map", 0, nil, ainput{K: "params", V: "z"}, src, st("m2", "get")),
		},
	}
}

func ancestorsOf(g agraph, name string) map[string]bool {
	by := map[string]amod{}
	for _, m := range g {
		by[m.Name] = m
	}
	out := map[string]bool{}
	var walk func(n string)
	walk = func(n string) {
		m := by[n]
		deps := []string{}
		for _, in := range m.Inputs {
			if in.K == "map" || in.K == "store" {
				deps = append(deps, in.V)
			}
		}
		if len(m.Filter) == 2 {
			deps = append(deps, m.Filter[0])
		}
		for _, d := range deps {
			if !out[d] {
				out[d] = true
				walk(d)
			}
		}
	}
	walk(name)
	return out
}

var mutationKinds = []string{"code", "entrypoint", "initial_block", "kind", "param_value", "source_type", "filter_query", "filter_module",
	"add_input", "remove_input", "swap_inputs_different_kind", "swap_inputs_same_kind", "store_input_mode", "retarget_input"}

// paramValue: parameter values are free text; some look like identifiers (and could be the name of some module)
func paramValue(r *rand.Rand) string {
	if r.Intn(2) == 0 {
		return fmt.Sprintf("pv%d", r.Intn(3))
	}
	return fmt.Sprintf("p=%d", r.Intn(3))
}

func isIdent(s string) bool {
	if s == "" {
		return false
	}
	for i, c := range s {
		if !(c == '_' || (c >= 'a' && c <= 'z') || (c >= 'A' && c <= 'Z') || (i > 0 && c >= '0' && c <= '9')) {
			return false
		}
	}
	return true
}

func hasName(g agraph, n string) bool {
	for _, m := range g {
		if m.Name == n {
			return true
		}
	}
	return false
}

func runSig(a *args) error {
	r := rand.New(rand.NewSource(a.seed))
	n := 400
	if a.tier == "thorough" {
		n = 8000
	}
	if a.n > 0 {
		n = a.n
	}
	aliasDir, err := os.MkdirTemp("", "valias-")
	if err != nil {
		return err
	}
	defer os.RemoveAll(aliasDir)
	nAlias := 0
	defer func() { a.info = map[string]any{"alias_imports": nAlias} }()
	structured := structuredGraphs()
	for i := 0; i < n+len(structured); i++ {
		var g agraph
		if i < len(structured) {
			g = structured[i]
		} else {
			filterRich = i%2 == 1
			g = randGraph(r, 2+r.Intn(7))
			filterRich = false
		}
		base, berr := hashesOf(g.toProto(0))
		if berr != "" {
			continue // only graphs every module of which can be hashed
		}
		again, _ := hashesOf(g.clone().toProto(0))
		a.emit(map[string]any{"k": "determinism", "g": g, "ids": base, "ids2": again})
		// single-field mutations
		for _, kind := range mutationKinds {
			j := r.Intn(len(g))
			for t := 0; t < len(g); t++ {
				if i < len(structured) { // structured families: every module x every mutation class, several draws
					for rep := 0; rep < 3; rep++ {
						if h, mu, ok := mutate(r, g, t, kind); ok {
							ids, herr := hashesOf(h.toProto(0))
							changed := []string{}
							for name, id := range base {
								if ids[name] != id {
									changed = append(changed, name)
								}
							}
							a.emitNT(map[string]any{"k": "mutation", "g": g, "h": h, "mut": mu, "changed": changed, "err": herr}, true)
						}
					}
					continue
				}
				h, mu, ok := mutate(r, g, (j+t)%len(g), kind)
				if !ok {
					continue
				}
				ids, herr := hashesOf(h.toProto(0))
				changed := []string{}
				for name, id := range base {
					if ids[name] != id {
						changed = append(changed, name)
					}
				}
				a.emitNT(map[string]any{"k": "mutation", "g": g, "h": h, "mut": mu, "changed": changed, "err": herr}, true)
				break
			}
		}
		// identity-preserving transformations
		// (1) consistent rename
		ren := g.clone()
		nm := func(s string) string { return "pkg_" + s + "_v2" }
		for k := range ren {
			ren[k].Name = nm(ren[k].Name)
			for x := range ren[k].Inputs {
				if ren[k].Inputs[x].K == "map" || ren[k].Inputs[x].K == "store" {
					ren[k].Inputs[x].V = nm(ren[k].Inputs[x].V)
				}
			}
			if len(ren[k].Filter) == 2 {
				ren[k].Filter[0] = nm(ren[k].Filter[0])
			}
		}
		rids, rerr := hashesOf(ren.toProto(0))
		back := map[string]string{}
		for _, m := range g {
			back[m.Name] = rids[nm(m.Name)]
		}
		a.emitNT(map[string]any{"k": "transform", "t": "rename", "g": g, "ids": base, "ids2": back, "err": rerr}, true)
		// (2) unrelated additions (at the front, in the middle and at the end of the list)
		add := g.clone()
		extra := randGraph(r, 1+r.Intn(3))
		for k := range extra {
			extra[k].Name = "x_" + extra[k].Name
			for x := range extra[k].Inputs {
				if extra[k].Inputs[x].K == "map" || extra[k].Inputs[x].K == "store" {
					extra[k].Inputs[x].V = "x_" + extra[k].Inputs[x].V
				}
			}
			if len(extra[k].Filter) == 2 {
				extra[k].Filter[0] = "x_" + extra[k].Filter[0]
			}
			extra[k].Code = "other-" + extra[k].Code
		}
		// an unrelated module may happen to be NAMED like a parameter value of the package (a value is not a reference)
		if r.Intn(3) == 0 {
			for _, m := range g {
				for _, in := range m.Inputs {
					if in.K == "params" && isIdent(in.V) && !hasName(add, in.V) && !hasName(extra, in.V) {
						old := extra[0].Name
						extra[0].Name = in.V
						for k := range extra {
							for x := range extra[k].Inputs {
								if (extra[k].Inputs[x].K == "map" || extra[k].Inputs[x].K == "store") && extra[k].Inputs[x].V == old {
									extra[k].Inputs[x].V = in.V
								}
							}
							if len(extra[k].Filter) == 2 && extra[k].Filter[0] == old {
								extra[k].Filter[0] = in.V
							}
						}
					}
				}
			}
		}
		pos := r.Intn(len(add) + 1)
		add = append(add[:pos:pos], append(extra, add[pos:]...)...)
		var orig []string
		for _, m := range g {
			orig = append(orig, m.Name)
		}
		aids, aerr := hashesOf(add.toProto(0), orig...)
		a.emitNT(map[string]any{"k": "transform", "t": "unrelated_additions", "g": g, "ids": base, "ids2": aids, "err": aerr}, true)
		// (3) binaries moved to other indexes
		bids, berr2 := hashesOf(g.toProto(1 + r.Intn(2)))
		a.emitNT(map[string]any{"k": "transform", "t": "binary_reindex", "g": g, "ids": base, "ids2": bids, "err": berr2}, true)
		// (5) alias import through the real manifest reader
		if rec, ok := aliasImport(r, aliasDir, g, i); ok {
			a.emitNT(rec, true)
			nAlias++
		}
		// (4) module list order
		sh := g.clone()
		r.Shuffle(len(sh), func(x, y int) { sh[x], sh[y] = sh[y], sh[x] })
		sids, serr := hashesOf(sh.toProto(0))
		a.emitNT(map[string]any{"k": "transform", "t": "list_order", "g": g, "ids": base, "ids2": sids, "err": serr}, true)
	}
	return nil
}
