package main

import (
	"encoding/hex"
	"fmt"
	"math/rand"
	"os"
	"path/filepath"
	"strings"

	"github.com/streamingfast/substreams/manifest"
)

// aliasImport: the graph is written as a YAML manifest lib.yaml (one binary file per distinct code), read standalone with
// the REAL manifest reader, then imported under an alias by app.yaml whose own binary has (variant 0) the same bytes and
// type as one of lib's, (1) the same bytes but another type, (2) other bytes.  Identifiers of lib's modules must be equal.
func aliasImport(r *rand.Rand, dir string, g agraph, seq int) (rec map[string]any, ok bool) {
	d := filepath.Join(dir, fmt.Sprintf("alias%d", seq))
	os.MkdirAll(d, 0755)
	defer os.RemoveAll(d)
	codes := []string{}
	seen := map[string]string{}
	for _, m := range g {
		if _, f := seen[m.Code]; !f {
			name := "default"
			if len(codes) > 0 {
				name = fmt.Sprintf("bin%d", len(codes))
			}
			seen[m.Code] = name
			codes = append(codes, m.Code)
			os.WriteFile(filepath.Join(d, name+".wasm"), []byte("\x00asm\x01\x00\x00\x00"+m.Code), 0644)
		}
	}
	var sb strings.Builder
	sb.WriteString("specVersion: v0.1.0\npackage:\n  name: lib\n  version: v0.1.0\nbinaries:\n")
	for _, c := range codes {
		fmt.Fprintf(&sb, "  %s:\n    type: wasm/rust-v1\n    file: ./%s.wasm\n", seen[c], seen[c])
	}
	sb.WriteString("modules:\n")
	for _, m := range g {
		kind := map[string]string{"map": "map", "store": "store", "index": "blockIndex"}[m.Kind]
		fmt.Fprintf(&sb, "  - name: %s\n    kind: %s\n    initialBlock: %d\n    binary: %s\n", m.Name, kind, m.Init+1, seen[m.Code])
		if m.Kind == "store" {
			sb.WriteString("    updatePolicy: add\n    valueType: int64\n")
		}
		sb.WriteString("    inputs:\n")
		for _, in := range m.Inputs {
			switch in.K {
			case "source":
				fmt.Fprintf(&sb, "      - source: %s\n", in.V)
			case "map":
				fmt.Fprintf(&sb, "      - map: %s\n", in.V)
			case "store":
				fmt.Fprintf(&sb, "      - store: %s\n        mode: %s\n", in.V, in.Mode)
			default:
				return nil, false // params inputs need a params section; not used for this transformation
			}
		}
		if len(m.Filter) == 2 {
			fmt.Fprintf(&sb, "    blockFilter:\n      module: %s\n      query:\n        string: %q\n", m.Filter[0], m.Filter[1])
		}
		switch m.Kind {
		case "map":
			sb.WriteString("    output:\n      type: proto:verif.Out\n")
		case "index":
			sb.WriteString("    output:\n      type: proto:sf.substreams.index.v1.Keys\n")
		}
	}
	libPath := filepath.Join(d, "lib.yaml")
	os.WriteFile(libPath, []byte(sb.String()), 0644)

	read := func(path string) (map[string]string, string) {
		out := map[string]string{}
		var errs string
		p := guard(func() {
			rd, err := manifest.NewReader(path)
			if err != nil {
				errs = err.Error()
				return
			}
			b, err := rd.Read()
			if err != nil {
				errs = err.Error()
				return
			}
			hs := manifest.NewModuleHashes()
			for _, mod := range b.Package.Modules.Modules {
				h, err := hs.HashModule(b.Package.Modules, mod, b.Graph)
				if err != nil {
					errs += err.Error() + ";"
					continue
				}
				out[mod.Name] = hex.EncodeToString(h)
			}
		})
		if p != "" {
			errs += " panic: " + p
		}
		return out, errs
	}
	base, berr := read(libPath)
	if berr != "" || len(base) != len(g) {
		return nil, false // the reader does not accept this graph standalone: not a case for this transformation
	}
	variant := r.Intn(3)
	own := []byte("\x00asm\x01\x00\x00\x00" + codes[r.Intn(len(codes))])
	typ := "wasm/rust-v1"
	switch variant {
	case 1:
		typ = "wasm/rust-v1+wasm-bindgen-shims"
	case 2:
		own = []byte("\x00asm\x01\x00\x00\x00 other code")
	}
	os.WriteFile(filepath.Join(d, "app.wasm"), own, 0644)
	alias := []string{"lib", "dep_v2"}[r.Intn(2)]
	app := fmt.Sprintf("specVersion: v0.1.0\npackage:\n  name: app\n  version: v0.1.0\nimports:\n  %s: ./lib.yaml\nbinaries:\n  default:\n    type: %s\n    file: ./app.wasm\nmodules:\n  - name: app_out\n    kind: map\n    initialBlock: 1\n    inputs:\n      - source: %s\n", alias, typ, blockType)
	for _, m := range g {
		if m.Kind == "map" {
			app += fmt.Sprintf("      - map: %s:%s\n", alias, m.Name)
			break
		}
	}
	app += "    output:\n      type: proto:verif.Out\n"
	appPath := filepath.Join(d, "app.yaml")
	os.WriteFile(appPath, []byte(app), 0644)
	imp, ierr := read(appPath)
	back := map[string]string{}
	for _, m := range g {
		back[m.Name] = imp[alias+":"+m.Name]
	}
	return map[string]any{"k": "transform", "t": "alias_import", "g": g, "ids": base, "ids2": back, "err": ierr,
		"variant": []string{"same_bytes_same_type", "same_bytes_other_type", "other_bytes"}[variant]}, true
}
