package main

import (
	pbsubstreams "github.com/streamingfast/substreams/pb/sf/substreams/v1"
)

// Builders for module protos (shared by the plan, graph, signature, validate and end-to-end drivers).

const blockType = "sf.substreams.v1.test.Block"

func inSource(t string) *pbsubstreams.Module_Input {
	return &pbsubstreams.Module_Input{Input: &pbsubstreams.Module_Input_Source_{Source: &pbsubstreams.Module_Input_Source{Type: t}}}
}
func inMap(name string) *pbsubstreams.Module_Input {
	return &pbsubstreams.Module_Input{Input: &pbsubstreams.Module_Input_Map_{Map: &pbsubstreams.Module_Input_Map{ModuleName: name}}}
}
func inStore(name string, deltas bool) *pbsubstreams.Module_Input {
	m := pbsubstreams.Module_Input_Store_GET
	if deltas {
		m = pbsubstreams.Module_Input_Store_DELTAS
	}
	return &pbsubstreams.Module_Input{Input: &pbsubstreams.Module_Input_Store_{Store: &pbsubstreams.Module_Input_Store{ModuleName: name, Mode: m}}}
}
func inParams(v string) *pbsubstreams.Module_Input {
	return &pbsubstreams.Module_Input{Input: &pbsubstreams.Module_Input_Params_{Params: &pbsubstreams.Module_Input_Params{Value: v}}}
}

func mapMod(name string, init uint64, inputs ...*pbsubstreams.Module_Input) *pbsubstreams.Module {
	return &pbsubstreams.Module{Name: name, InitialBlock: init, BinaryIndex: 0, BinaryEntrypoint: name,
		Kind:   &pbsubstreams.Module_KindMap_{KindMap: &pbsubstreams.Module_KindMap{OutputType: "proto:verif.Out"}},
		Output: &pbsubstreams.Module_Output{Type: "proto:verif.Out"}, Inputs: inputs}
}
func storeMod(name string, init uint64, pol pbsubstreams.Module_KindStore_UpdatePolicy, vt string, inputs ...*pbsubstreams.Module_Input) *pbsubstreams.Module {
	return &pbsubstreams.Module{Name: name, InitialBlock: init, BinaryIndex: 0, BinaryEntrypoint: name,
		Kind: &pbsubstreams.Module_KindStore_{KindStore: &pbsubstreams.Module_KindStore{UpdatePolicy: pol, ValueType: vt}}, Inputs: inputs}
}
func indexMod(name string, init uint64, inputs ...*pbsubstreams.Module_Input) *pbsubstreams.Module {
	return &pbsubstreams.Module{Name: name, InitialBlock: init, BinaryIndex: 0, BinaryEntrypoint: name,
		Kind:   &pbsubstreams.Module_KindBlockIndex_{KindBlockIndex: &pbsubstreams.Module_KindBlockIndex{OutputType: "proto:sf.substreams.index.v1.Keys"}},
		Output: &pbsubstreams.Module_Output{Type: "proto:sf.substreams.index.v1.Keys"}, Inputs: inputs}
}

func modules(bin []byte, mods ...*pbsubstreams.Module) *pbsubstreams.Modules {
	return &pbsubstreams.Modules{Modules: mods, Binaries: []*pbsubstreams.Binary{{Type: "wasm/rust-v1", Content: bin}}}
}
