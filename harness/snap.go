package main

import (
	"context"
	"encoding/hex"
	"fmt"
	"math/rand"
	"os"
	"sort"

	"github.com/streamingfast/dstore"
	pbsubstreams "github.com/streamingfast/substreams/pb/sf/substreams/v1"
	"github.com/streamingfast/substreams/storage/store"
	"go.uber.org/zap"
)

func init() { register("snap", runSnap) }

// big block numbers do not fit TLC's 32-bit integers: n = hi*100000 + lo
func split(n uint64) []uint64 { return []uint64{n / 100000, n % 100000} }

type hsnap struct {
	KV     map[string]string `json:"kv"`  // hex(key) -> hex(value); "" = empty value
	Del    []string          `json:"del"` // hex prefixes
	Size   uint64            `json:"size"`
	Actual uint64            `json:"actual"`
	N      int               `json:"n"`
}

func hexSnap(s store.Store) hsnap {
	out := hsnap{KV: map[string]string{}, Del: []string{}}
	s.Iter(func(k string, v []byte) error {
		out.KV["k"+hex.EncodeToString([]byte(k))] = "v" + hex.EncodeToString(v)
		out.Actual += uint64(len(k) + len(v))
		out.N++
		return nil
	})
	out.Size = s.SizeBytes()
	if p, ok := s.(*store.PartialKV); ok {
		for _, d := range p.DeletedPrefixes {
			out.Del = append(out.Del, "p"+hex.EncodeToString([]byte(d)))
		}
	}
	return out
}

func randBytes(r *rand.Rand, n int) []byte {
	b := make([]byte, n)
	r.Read(b)
	return b
}

func randKey(r *rand.Rand) string {
	switch r.Intn(4) {
	case 0:
		return fmt.Sprintf("key:%d", r.Intn(100000))
	case 1:
		return string([]byte{byte(r.Intn(255))}) // single byte, never 0xFF
	default:
		b := randBytes(r, 1+r.Intn(24))
		if b[0] == 0xFF {
			b[0] = 0x7F
		}
		return string(b)
	}
}

func randVal(r *rand.Rand) []byte {
	switch r.Intn(24) {
	case 0, 1, 2, 3:
		return []byte{}
	case 4:
		return randBytes(r, 127+r.Intn(4)) // around the 1-byte/2-byte varint length boundary
	case 5:
		if r.Intn(8) == 0 {
			return randBytes(r, 16383+r.Intn(3)) // 2-byte/3-byte varint length boundary
		}
		return randBytes(r, 300+r.Intn(1500))
	default:
		return randBytes(r, r.Intn(24))
	}
}

func runSnap(a *args) error {
	dir, err := os.MkdirTemp("", "vsnap-")
	if err != nil {
		return err
	}
	defer os.RemoveAll(dir)
	ctx := context.Background()
	r := rand.New(rand.NewSource(a.seed))
	lg := zap.NewNop()
	n := 150
	if a.tier == "thorough" {
		n = 4000
	}
	if a.n > 0 {
		n = a.n
	}
	comp := [][2]string{{"zst", "zstd"}, {"", ""}}
	for i := 0; i < n; i++ {
		c := comp[i%2]
		ds, err := dstore.NewStore(fmt.Sprintf("file://%s/s%d", dir, i), c[0], c[1], true)
		if err != nil {
			return err
		}
		var initBlk uint64
		switch r.Intn(4) {
		case 0:
			initBlk = 0
		case 1:
			initBlk = uint64(r.Intn(1000))
		case 2:
			initBlk = uint64(r.Int63n(9_000_000_000))
		default:
			initBlk = uint64(r.Intn(50))
		}
		cfg, err := store.NewConfig("st", initBlk, "hash", pbsubstreams.Module_KindStore_UPDATE_POLICY_SET, "bytes", ds)
		if err != nil {
			return err
		}
		a.emit(map[string]any{"ev": "reset", "init": split(initBlk)})
		// ---- round trips: one full, one partial, with arbitrary binary content
		nent := []int{0, 1, 2, 3, 5, 12, 40, 300}[r.Intn(8)]
		if a.tier == "thorough" && r.Intn(40) == 0 {
			nent = 3000 + r.Intn(3000)
		}
		full := cfg.NewFullKV(lg)
		pstart := initBlk + uint64(r.Intn(100))
		part := cfg.NewPartialKV(pstart, lg)
		for _, st := range []store.Store{full, part} {
			for e := 0; e < nent; e++ {
				st.SetBytes(uint64(e), randKey(r), randVal(r))
			}
			if p, ok := st.(*store.PartialKV); ok {
				for d := 0; d < r.Intn(4); d++ {
					k := randKey(r)
					p.DeletePrefix(uint64(nent+d), k[:r.Intn(len(k)+1)])
				}
				if r.Intn(3) == 0 {
					p.DeletePrefix(uint64(nent+9), "") // the empty prefix is legal
				}
			}
			ferr := ""
			if err := st.Flush(); err != nil {
				ferr = err.Error()
			}
			end := initBlk + 100 + uint64(r.Intn(1000))
			if r.Intn(3) == 0 {
				end = 9_999_999_000 + uint64(r.Intn(999))
			}
			rec := map[string]any{"ev": "roundtrip", "err": ferr, "end": split(end)}
			saved := hexSnap(st)
			rec["saved"] = saved
			file, w, err := st.Save(end)
			if err == nil {
				err = w.Write(ctx)
			}
			if err != nil {
				rec["err"] = "save: " + err.Error()
				rec["loaded"] = hsnap{KV: map[string]string{}, Del: []string{}}
				rec["partial"], rec["file"], rec["frange"], rec["start"] = false, "", [][]uint64{{0, 0}, {0, 0}}, split(0)
				a.emit(rec)
				continue
			}
			var loaded store.Store
			if _, ok := st.(*store.PartialKV); ok {
				l := cfg.NewPartialKV(pstart, lg)
				err = l.Load(ctx, file)
				loaded = l
				rec["partial"], rec["start"] = true, split(pstart)
			} else {
				l := cfg.NewFullKV(lg)
				err = l.Load(ctx, file)
				loaded = l
				rec["partial"], rec["start"] = false, split(initBlk)
			}
			if err != nil {
				rec["err"] = "load: " + err.Error()
			}
			rec["loaded"] = hexSnap(loaded)
			rec["file"] = file.Filename
			rec["frange"] = [][]uint64{split(file.Range.StartBlock), split(file.Range.ExclusiveEndBlock)}
			rec["fpartial"] = file.Partial
			a.emitNT(rec, saved.N > 1)
		}
		// ---- more snapshots of both kinds, then listings below every boundary
		type sv struct {
			s, e    uint64
			partial bool
		}
		var saves []sv
		base := initBlk
		for k := 0; k < 2+r.Intn(8); k++ {
			var end uint64
			if r.Intn(5) == 0 {
				end = base + 1 + uint64(r.Int63n(9_999_999_999-int64(base)))
			} else {
				end = base + 1 + uint64(r.Intn(60))
			}
			if end > 9_999_999_999 {
				end = 9_999_999_999
			}
			if r.Intn(2) == 0 {
				f := cfg.NewFullKV(lg)
				f.SetBytes(0, "k", []byte("v"))
				f.Flush()
				if _, w, err := f.Save(end); err == nil && w.Write(ctx) == nil {
					saves = append(saves, sv{initBlk, end, false})
				}
			} else {
				st := initBlk + uint64(r.Int63n(int64(end-initBlk)))
				p := cfg.NewPartialKV(st, lg)
				if _, w, err := p.Save(end); err == nil && w.Write(ctx) == nil {
					saves = append(saves, sv{st, end, true})
				}
			}
		}
		// files that must never be taken for snapshots
		// (a) what a crash inside dstore's write-then-rename leaves: <object path>.<8 random chars>.tmp
		ext := ""
		if c[0] != "" {
			ext = "." + c[0]
		}
		sdir := fmt.Sprintf("%s/s%d/hash/states", dir, i)
		os.MkdirAll(sdir, 0755)
		os.WriteFile(sdir+"/0000000010-0000000000.kv"+ext+".abcdefgh.tmp", []byte("junk"), 0644)
		os.WriteFile(fmt.Sprintf("%s/%010d-%010d.partial%s.zyxwvuts.tmp", sdir, initBlk+7, initBlk, ext), []byte("half"), 0644)
		// (b) a foreign file
		ss, _ := ds.SubStore("hash/states")
		ss.WriteObject(ctx, "garbage.txt", bytesReader("junk"))
		jsaves := []map[string]any{}
		for _, s := range saves {
			jsaves = append(jsaves, map[string]any{"start": split(s.s), "end": split(s.e), "partial": s.partial})
		}
		a.emit(map[string]any{"ev": "saved", "files": jsaves})
		bounds := map[uint64]bool{0: true, 1: true, initBlk: true, initBlk + 1: true, 9_999_999_999: true}
		for _, s := range saves {
			bounds[s.e] = true
			bounds[s.e-1] = true
			bounds[s.e+1] = true
			bounds[s.s] = true
		}
		var bl []uint64
		for b := range bounds {
			bl = append(bl, b)
		}
		sort.Slice(bl, func(i, j int) bool { return bl[i] < bl[j] })
		for _, below := range bl {
			rec := map[string]any{"ev": "list", "below": split(below), "err": ""}
			files, err := cfg.ListSnapshotFiles(ctx, below)
			if err != nil {
				rec["err"] = err.Error()
			}
			got := []map[string]any{}
			for _, f := range files {
				got = append(got, map[string]any{"start": split(f.Range.StartBlock), "end": split(f.Range.ExclusiveEndBlock), "partial": f.Partial, "name": f.Filename})
			}
			rec["got"] = got
			a.emitNT(rec, len(got) > 1)
		}
	}
	return nil
}
