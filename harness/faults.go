package main

import (
	"context"
	"fmt"
	"io"
	"math/rand"
	"net"
	"os"
	"path/filepath"
	"sync"

	"github.com/streamingfast/bstream"
	bsstream "github.com/streamingfast/bstream/stream"
	"github.com/streamingfast/substreams/client"
	"github.com/streamingfast/substreams/orchestrator/work"
	pbssinternal "github.com/streamingfast/substreams/pb/sf/substreams/intern/v2"
	"github.com/streamingfast/substreams/service"
	"go.uber.org/zap"
	"google.golang.org/grpc"
	"google.golang.org/grpc/codes"
	"google.golang.org/grpc/credentials/insecure"
	"google.golang.org/grpc/metadata"
	"google.golang.org/grpc/status"
	"google.golang.org/grpc/test/bufconn"
)

// C16: the REAL work.RemoteWorker (retry loop, error classification) talks gRPC over an in-memory connection to the REAL
// exported Tier2Service.ProcessRange (with its real error mapping); a client-side injector executes a fault plan.

type faultPlan struct {
	mu       sync.Mutex
	Faults   map[string][]string `json:"faults"` // "stage:segment" -> fault kind per attempt ("" = none)
	attempts map[string]int
	pending  map[string][]string
	calls    int
	Log      []string `json:"log"`     // "stage:segment#attempt=kind"
	MaxConc  uint64   `json:"maxconc"` // concurrency limit of the tier2 node (0 = none): a full node REALLY refuses calls
}

// next: which fault (if any) hits this ProcessRange call.  Faults["#k"] = kinds: the job reached by the k-th call of the
// request receives kinds[0] now and kinds[1..] on its following attempts (consecutive faults on the SAME job).
func (p *faultPlan) next(stage uint32, segment uint64) string {
	p.mu.Lock()
	defer p.mu.Unlock()
	key := fmt.Sprintf("%d:%d", stage, segment)
	if p.attempts == nil {
		p.attempts = map[string]int{}
		p.pending = map[string][]string{}
	}
	i := p.attempts[key]
	p.attempts[key] = i + 1
	if k, ok := p.Faults[fmt.Sprintf("#%d", p.calls)]; ok && len(p.pending[key]) == 0 {
		p.pending[key] = append([]string{}, k...)
	}
	p.calls++
	kind := ""
	if q := p.pending[key]; len(q) > 0 {
		kind, p.pending[key] = q[0], q[1:]
	} else if k, ok := p.Faults["*first"]; ok && i == 0 && len(k) > 0 {
		kind = k[0] // the first attempt of EVERY job
	}
	p.Log = append(p.Log, fmt.Sprintf("%s#%d=%s", key, i, kind))
	return kind
}

type faultClient struct {
	inner pbssinternal.SubstreamsClient
	plan  *faultPlan
}

type faultStream struct {
	grpc.ServerStreamingClient[pbssinternal.ProcessRangeResponse]
	kind   string
	cancel context.CancelFunc
	n      int
}

func (s *faultStream) Recv() (*pbssinternal.ProcessRangeResponse, error) {
	switch s.kind {
	case "dropped_midway":
		s.n++
		if s.n >= 1 {
			s.cancel() // the server notices when it next sends
			return nil, status.Error(codes.Unavailable, "transport is closing (injected)")
		}
	case "dropped_after_files_written":
		// let the job run to completion on the server, then lose the completion
		for {
			_, err := s.ServerStreamingClient.Recv()
			if err != nil {
				break
			}
		}
		return nil, status.Error(codes.Unavailable, "connection reset by peer (injected)")
	}
	resp, err := s.ServerStreamingClient.Recv()
	if err != nil && err != io.EOF && os.Getenv("VERIF_DEBUG") != "" {
		fmt.Fprintf(os.Stderr, "tier2 stream error: %v\n", err)
	}
	return resp, err
}

func (c *faultClient) ProcessRange(ctx context.Context, in *pbssinternal.ProcessRangeRequest, opts ...grpc.CallOption) (pbssinternal.Substreams_ProcessRangeClient, error) {
	kind := c.plan.next(in.Stage, in.SegmentNumber)
	switch kind {
	case "unavailable_before_call":
		return nil, status.Error(codes.Unavailable, "no healthy upstream (injected)")
	case "overloaded":
		return nil, status.Error(codes.Unavailable, "service currently overloaded (injected)")
	case "server_send_fails":
		// the connection drops while the job runs: tier2 notices it when it sends its first progress message
		ctx = metadata.AppendToOutgoingContext(ctx, "verif-fail-send", "1")
	case "server_context_canceled":
		ctx = metadata.AppendToOutgoingContext(ctx, "verif-cancel-server", "1")
	}
	cctx, cancel := context.WithCancel(ctx)
	st, err := c.inner.ProcessRange(cctx, in, opts...)
	if err != nil {
		cancel()
		return nil, err
	}
	return &faultStream{ServerStreamingClient: st, kind: kind, cancel: cancel}, nil
}

// startTier2 serves the real Tier2Service over bufconn; returns a client factory for work.NewRemoteWorker.
func startTier2(plan *faultPlan) (client.InternalClientFactory, func()) {
	lis := bufconn.Listen(1 << 20)
	srv := grpc.NewServer(grpc.StreamInterceptor(func(srv any, ss grpc.ServerStream, info *grpc.StreamServerInfo, handler grpc.StreamHandler) error {
		if md, ok := metadata.FromIncomingContext(ss.Context()); ok && len(md.Get("verif-fail-send")) > 0 {
			return handler(srv, &failingServerStream{ServerStream: ss})
		}
		if md, ok := metadata.FromIncomingContext(ss.Context()); ok && len(md.Get("verif-cancel-server")) > 0 {
			cctx, cancel := context.WithCancel(ss.Context())
			defer cancel()
			return handler(srv, &cancelingServerStream{ServerStream: ss, ctx: cctx, cancel: cancel})
		}
		return handler(srv, ss)
	}))
	svc := service.TestNewServiceTier2(false, func(ctx context.Context, h bstream.Handler, start int64, stop uint64, _ string, _ bool, _ bool, _ *zap.Logger, _ ...bsstream.Option) (service.Streamable, error) {
		return &linearStream{h: h, start: uint64(start), end: stop}, nil
	})
	service.WithReadinessFunc(func(bool) {})(svc)
	if plan.MaxConc > 0 {
		service.WithMaxConcurrentRequests(plan.MaxConc)(svc)
	}
	pbssinternal.RegisterSubstreamsServer(srv, svc)
	go srv.Serve(lis)
	factory := func() (pbssinternal.SubstreamsClient, func() error, []grpc.CallOption, client.Headers, error) {
		conn, err := grpc.NewClient("passthrough:///bufnet", grpc.WithContextDialer(func(ctx context.Context, _ string) (net.Conn, error) { return lis.DialContext(ctx) }),
			grpc.WithTransportCredentials(insecure.NewCredentials()))
		if err != nil {
			return nil, nil, nil, nil, err
		}
		return &faultClient{inner: pbssinternal.NewSubstreamsClient(conn), plan: plan}, conn.Close, nil, nil, nil
	}
	return factory, func() { srv.Stop(); lis.Close() }
}

type failingServerStream struct {
	grpc.ServerStream
}

func (f *failingServerStream) SendMsg(m any) error {
	return status.Error(codes.Unavailable, "transport is closing (injected on the server side)")
}

// cancelingServerStream: the handler's context is cancelled when the job sends its first message (the tier2 process is
// being shut down, a proxy resets the stream): the real handler aborts and the real toGRPCError answers Canceled on the wire
// while the CLIENT's own context is alive - a transient fault the worker must retry
type cancelingServerStream struct {
	grpc.ServerStream
	ctx    context.Context
	cancel context.CancelFunc
}

func (c *cancelingServerStream) Context() context.Context { return c.ctx }
func (c *cancelingServerStream) SendMsg(m any) error {
	c.cancel()
	return c.ServerStream.SendMsg(m)
}

var transientKinds = []string{"server_context_canceled", "server_context_canceled", "unavailable_before_call", "dropped_midway", "overloaded", "dropped_after_files_written", "server_send_fails", "server_send_fails", "server_send_fails"}

func runFaults(a *args, r *rand.Rand, root string, i int) {
	// (a) transient faults: up to 3, placed on random jobs/attempts of a cold production run
	prog := randProg(r)
	seg := []uint64{2, 3, 5}[r.Intn(3)]
	a.emit(map[string]any{"ev": "prog", "prog": prog, "seg": seg, "scenario": i})
	for k := 0; k < 2; k++ {
		env := newSysEnv(filepath.Join(root, fmt.Sprintf("f%d-%d", i, k)), prog)
		os.MkdirAll(env.dir, 0755)
		cfg := randCfg(r, prog, seg)
		cfg.Prod = true
		cfg.Final = false
		cfg.Workers = 1 + r.Intn(3)
		cfg.Stop = uint64(cfg.Start) + 2 + uint64(r.Intn(3*int(seg)))
		cfg.LibOK, cfg.Lib = true, cfg.Stop+uint64(r.Intn(10))
		cfg.Label = fmt.Sprintf("faults/transient/%d", k)
		plan := &faultPlan{Faults: map[string][]string{}}
		if r.Intn(3) == 0 { // a tier2 node with room for one job at a time and several workers: genuine "overloaded" refusals
			plan.MaxConc = 1
			cfg.Workers = 2 + r.Intn(2)
		}
		nf := 1 + r.Intn(3)
		for f := 0; f < nf; f++ {
			key := fmt.Sprintf("#%d", r.Intn(6)) // the n-th ProcessRange call of the request, whatever job it is (retries included)
			plan.Faults[key] = []string{transientKinds[r.Intn(len(transientKinds))]}
			if k == 1 && f == 0 { // all three faults on consecutive attempts of the same job
				plan.Faults[key] = []string{transientKinds[r.Intn(len(transientKinds))], transientKinds[r.Intn(len(transientKinds))], transientKinds[r.Intn(len(transientKinds))]}
				break
			}
		}
		emitFaultRun(a, env, cfg, plan, -1)
		os.RemoveAll(env.dir)
	}
	// (b) deterministic failure of the source mapper at a block of the range, both modes
	for _, prod := range []bool{true, false} {
		fp := append(sysProg{}, prog...)
		cfg := randCfg(r, prog, seg)
		cfg.Prod, cfg.Final = prod, false
		cfg.Workers = 1 + r.Intn(2)
		cfg.Stop = uint64(cfg.Start) + 3 + uint64(r.Intn(2*int(seg)+2))
		cfg.LibOK, cfg.Lib = true, cfg.Stop+uint64(r.Intn(6))
		si := 0
		for j, m := range fp {
			if m.Name == "m_src" {
				si = j
			}
		}
		failAt := uint64(cfg.Start) + uint64(r.Intn(int(cfg.Stop-uint64(cfg.Start))))
		if failAt < fp[si].Init {
			failAt = fp[si].Init
		}
		m0 := fp[si]
		m0.Body.FailAt = int64(failAt)
		fp[si] = m0
		env := newSysEnv(filepath.Join(root, fmt.Sprintf("f%d-d%v", i, prod)), fp)
		os.MkdirAll(env.dir, 0755)
		cfg.Label = fmt.Sprintf("faults/deterministic/%v", prod)
		dplan := &faultPlan{Faults: map[string][]string{}}
		if prod && r.Intn(2) == 0 {
			// both halves on one job: every job is hit by a transient fault on its first attempt, the retried job then reaches
			// the deterministically failing block
			dplan.Faults["*first"] = []string{[]string{"unavailable_before_call", "server_send_fails", "dropped_midway"}[r.Intn(3)]}
		}
		emitFaultRun(a, env, cfg, dplan, int64(failAt))
		os.RemoveAll(env.dir)
	}
}

func emitFaultRun(a *args, env *sysEnv, cfg runCfg, plan *faultPlan, failAt int64) {
	factory, stop := startTier2(plan)
	defer stop()
	remoteFactory = func(lg *zap.Logger) work.Worker { return work.NewRemoteWorker(factory, lg) }
	defer func() { remoteFactory = nil }()
	obs := runTier1(env, cfg, "", false)
	nd := 0
	for _, x := range obs.Resp {
		if x.Kind == "data" {
			nd++
		}
	}
	plan.mu.Lock()
	log := append([]string{}, plan.Log...)
	plan.mu.Unlock()
	a.emitNT(map[string]any{"ev": "run", "cfg": cfg, "obs": obs, "filesBefore": []fileRec{}, "faults": plan.Faults, "faultLog": log, "failAt": failAt}, nd > 1 || failAt >= 0)
	_ = io.EOF
}

// remoteFactory, when set, replaces the in-process gated workers by real RemoteWorkers.
var remoteFactory func(*zap.Logger) work.Worker
