#!/bin/bash
# seedrun.sh <seed-id> <property> [tier]: apply a seeded change to /repo, run the check, ALWAYS undo it.
set -u
id=$1; prop=$2; tier=${3:-quick}
src=/verif/seeded/$id; [ -d $src ] || src=/tmp/seeded/$id
cd /repo
if ! git diff --quiet; then echo "/repo working tree not clean"; exit 2; fi
if ! git apply $src/patch.diff 2>/dev/null; then
  git apply --3way $src/patch.diff >/dev/null 2>&1
  if [ -n "$(git diff --name-only --diff-filter=U)" ] || git diff --quiet HEAD; then echo "patch does not apply"; git reset -q --hard HEAD; exit 2; fi
fi
git reset -q
trap 'git -C /repo reset -q --hard HEAD ; git -C /repo clean -fdq' EXIT
cd /verif
out=$(VERIF_SEED=${VERIF_SEED:-1} ./check $prop --tier $tier 2>&1); rc=$?
echo "$out" | tail -6
echo "SEEDRUN id=$id property=$prop tier=$tier rc=$rc"
