"""One function per property: what TLC explores at design level, which harness drivers observe the real
code, which trace specification judges the observations."""
import os

import vlib


def _t(run, name):
    return os.path.join(run.scratch, name)


def C13(run):
    q = run.tier == "quick"
    run.model_check("MCSegments", "MCSegments_quick.cfg" if q else "MCSegments_thorough.cfg")
    if not q:
        # symbolic leg (Apalache): the per-segment tiling facts for symbolic initial block <= 1e5, end block <= 2e5 and segment
        # index, per segment size; TLC (MCSegApa) ties the integer formulation to SegRange of Segments.tla; a wrong fact must be refuted
        res = run.tlc("MCSegApa", "MCSegApa.cfg", workers=1, timeout=300)
        if not res["completed"]:
            raise vlib.Infra("MCSegApa: the Apalache formulation differs from Segments.tla:\n" + res["out"][-1500:])
        from concurrent.futures import ThreadPoolExecutor
        with ThreadPoolExecutor(max_workers=5) as ex:
            list(ex.map(lambda n: run.apalache("SegmentsApa", "CInit%d" % n, "Facts"), [1, 2, 3, 5, 7, 10, 16, 100, 1000]))
        run.apalache("SegmentsApa", "CInit7", "WrongFact", expect_error=True)
    tr = _t(run, "segments.ndjson")
    info = run.harness("segments", tr)
    v = run.validate("TraceSegments", tr)
    run.judge(v, tr, "segments")
    if run.tier == "thorough":
        def mut(r):
            r["segs"][0][1] += 1
        run.selftest("TraceSegments", tr, "segments-range", lambda r: r.get("k") == "seg" and r.get("count", 0) >= 2 and not r.get("panic"), mut, span=1)
    run.sample(tr, pick={700, 20000, info["records"] - 2})
    run.cov["distinct_nontrivial"] = info["distinct_nontrivial"]
    run.cov["exhaustive"] = True
    run.cov["rule"] = ("exhaustive (size 1..16, initial 0..%s, end initial+1..%s) segmenters with every index first-1..last+2 "
                       "and every block asked to IndexForStartBlock/IndexForEndBlock; every Range.Split over 0..25 x chunk "
                       "1..16; every sorted disjoint range list over 0..%s for Merged; plus seeded random segmenters near "
                       "2e9 and random range lists over 0..64. Non-trivial = more than one segment / chunk / range; "
                       "distinct = by record content" % (("32", "48", "8") if q else ("64", "96", "10")))
    run.assumptions += ["the C13 predicates of spec/Segments.tla (Tiles, StartIndexOK, EndIndexOK, SplitOK, MergedOK) judge "
                        "the answers OBSERVED from block.Segmenter/Range.Split/Ranges.Merged; TLC (MCSegments) checks the "
                        "reference operators satisfy the same predicates"]


# ------------------------------------------------------------------ binding self-tests (corrupt one logged field / drop one event)
def _st_system(run, tr):
    def pick(r):
        return r.get("ev") == "run" and not r["obs"].get("err") and not r["cfg"].get("cursor") and \
            any(x["kind"] == "data" and x["payload"] for x in r["obs"]["resp"])

    def mut(r):
        for x in r["obs"]["resp"]:
            if x["kind"] == "data" and x["payload"]:
                x["payload"][0] += 1
                return
    run.selftest("TraceSystem", tr, "system-payload", pick, mut, start=lambda r: r.get("ev") == "prog", xss="512m")


def _st_sched(run, tr):
    def pick(r):
        return r.get("ev") == "supd" and r.get("t") == "JobSucceeded" and r["rows"] and r["rows"][0]

    def mut(r):
        row = r["rows"][0]
        r["rows"][0] = ("." if row[0] == "C" else "C") + row[1:]
    st = lambda r: r.get("ev") == "prog"   # noqa: E731
    run.selftest("TraceSched", tr, "sched-matrix", pick, mut, start=st, span=4000, xss="512m")
    run.selftest("TraceSched", tr, "sched-dropped-event", pick, None, start=st, span=4000, drop=True, xss="512m")


def _st_store(run, tr):
    def mut(r):
        r["M"]["size"] += 1
    run.selftest("TraceStore", tr, "store-merged-size", lambda r: r.get("ev") == "cut" and "M" in r and not r.get("err"), mut,
                 start=lambda r: r.get("ev") == "reset", span=50)


def _st_snap(run, tr):
    def mut(r):
        k = sorted(r["loaded"]["kv"])[0]
        del r["loaded"]["kv"][k]
    run.selftest("TraceSnap", tr, "snap-loaded-content", lambda r: r.get("ev") == "roundtrip" and len(r.get("loaded", {}).get("kv", {})) > 1 and not r.get("err"),
                 mut, start=lambda r: r.get("ev") == "reset", span=40, xss="512m")


# ------------------------------------------------------------------ store family (C02 C08 C09 C10 C11)
POLICIES = ["set", "sine", "append", "add", "min", "max", "set_sum"]


def _mc_store(run, kind):
    """Design-level exhaustive TLC runs of MCStore for every update policy, in parallel."""
    from concurrent.futures import ThreadPoolExecutor
    # exhaustive: 2 blocks x 2 operations per block (178k distinct states for set_sum); 3 blocks do not finish (measured: > 10^7
    # states), so the thorough tier adds RANDOM SIMULATION of the 4-block / 3-operation configuration for a fixed time budget
    ex_kind = "quick" if kind == "thorough" else kind
    cfgs = ["MCStore_%s_%s.cfg" % (p, ex_kind) for p in POLICIES]
    with ThreadPoolExecutor(max_workers=4) as ex:
        list(ex.map(lambda c: run.model_check("MCStore", c, workers=4, timeout=3000), cfgs))
    if kind == "thorough":
        with ThreadPoolExecutor(max_workers=4) as ex:
            list(ex.map(lambda p: run.simulate("MCStore", "MCStore_%s_thorough.cfg" % p, seconds=150, depth=24, workers=4), POLICIES))


def _store_trace(run, prefix, extra=()):
    tr = _t(run, "store.ndjson")
    info = run.harness("store", tr, extra=list(extra))
    v = run.validate_sharded("TraceStore", tr)
    run.judge(v, tr, "store", only=prefix)
    run.cov["distinct_nontrivial"] += info["distinct_nontrivial"]
    return tr, info


STORE_RULE = ("store driver: for each of the 27 (policy, value type) pairs the host interface admits, chains of real "
              "FullKV/PartialKV objects driven through wasm.Call.Do* + Flush: exhaustive small scope (every pre-content "
              "reachable by one write, then every block of 1 op and every/sampled block of 2 ops over keys {a,ab,b}, 2 values, "
              "ordinals {0,1}, delete_prefix {'',a,ab,b}; each followed by save->load->merge of the partial, a full snapshot "
              "round trip, reads of every key at ordinals 0..3, operation-log replay on twin stores, undo + re-apply) plus "
              "seeded random chains (<=12 blocks, <=16 keys, ordinals 0..4, cuts, undo/redo, save/load). "
              "Non-trivial = block with more than one operation / cut / undo of more than one delta; distinct by content.")


def _store_common(run, prefix, mc_kind):
    _mc_store(run, mc_kind)
    tr, info = _store_trace(run, prefix)
    if run.tier == "thorough":
        _st_store(run, tr)
    run.sample(tr, pick={1, 2, 3, info["records"] // 2})
    run.cov["rule"] = STORE_RULE
    run.assumptions += ["abstract typed values: small integers / short strings (no floating-point rounding, see DESIGN 3)",
                        "Go projection of store bytes onto the typed value domain (parseInt/proj in harness/store.go) is trusted",
                        "TraceStore.tla re-synchronises on the observed content after each step, so every step is judged on its own"]


def C02(run):
    _store_common(run, "C02:", "quick" if run.tier == "quick" else "thorough")


def C08(run):
    _store_common(run, "C08:", "reads")


def C09(run):
    _store_common(run, "C09:", "quick" if run.tier == "quick" else "thorough")


def C11(run):
    _store_common(run, "C11:", "quick" if run.tier == "quick" else "thorough")


def C10(run):
    q = run.tier == "quick"
    run.model_check("MCSnap", "MCSnap_quick.cfg" if q else "MCSnap_thorough.cfg", workers=8)
    # (a) dedicated snapshot driver: arbitrary binary content, 10-digit ranges, listings below every boundary
    tr = _t(run, "snap.ndjson")
    info = run.harness("snap", tr)
    v = run.validate("TraceSnap", tr, xss="512m")
    run.judge(v, tr, "snap")
    if run.tier == "thorough":
        _st_snap(run, tr)
    run.sample(tr, pick={0, 3, 5, 6})
    run.cov["distinct_nontrivial"] += info["distinct_nontrivial"]
    # (b) every cut/saveload of the store chains is a Save->Load round trip on typed content (signatures C10:*)
    tr2, _ = _store_trace(run, "C10:")
    run.cov["rule"] = ("snap driver: per store directory, a full and a partial store with random binary keys/values (empty values, "
                       "values around the 127/128 and 16383/16384 length boundaries, 0..300 entries; thousands in the thorough "
                       "tier) saved through a real local dstore (zstd and uncompressed alternately) and loaded back; then 2..9 more "
                       "snapshots of both kinds with ranges up to 9,999,999,999, crash debris (*.tmp as dstore's write-then-rename "
                       "leaves it) and a foreign file, and ListSnapshotFiles(below) for every boundary b-1,b,b+1. Plus all cut / "
                       "save-load events of the store driver. Non-trivial = more than one entry / more than one file listed.")
    run.assumptions += ["block numbers are passed to TLC as <<hi, lo>> pairs (32-bit integers)", "content compared as hex strings"]


def _mc_reconnect(run):
    # design level: Pipeline.tla with reconnections (client loses the connection at any moment, the chain moves on, it comes
    # back with the cursor of its last message; PResume = resolveStartBlockNum): no bad message, client converges
    q = run.tier == "quick"
    run.model_check("MCReconnect", "MCReconnect.cfg" if q else "MCReconnect_thorough.cfg", workers=8, timeout=2400)
    res = run.tlc("MCReconnect", "MCReconnect_reach.cfg", workers=2, timeout=300, expect_violation=True)   # vacuity guard
    run.cov["design_level_forked_reconnection_reached"] = bool(res.get("invariant_violated"))
    if not res.get("invariant_violated"):
        raise vlib.Infra("MCReconnect never reaches a reconnection from an orphaned block (vacuous model)")


def _st_forkresume(run, trf):
    def mutu(r):
        r["obs"]["resp"] = r["obs"]["resp"][1:]
    run.selftest("TraceSystem", trf, "forked-cursor-undo-signal-dropped",
                 lambda r: r.get("ev") == "forkresume" and r["resolved"]["id"] and not r["obs"].get("err") and r["obs"]["resp"] and
                 r["obs"]["resp"][0]["kind"] == "undo", mutu, start=lambda r: r.get("ev") == "prog", xss="512m")


def C12(run):
    q = run.tier == "quick"
    run.model_check("MCPlan", "MCPlan_quick.cfg" if q else "MCPlan_thorough.cfg", workers=16, timeout=2400)
    tr = _t(run, "plan.ndjson")
    info = run.harness("plan", tr)
    v = run.validate_sharded("TracePlan", tr, boundary='{"H"', shards=16, heap="3g")
    run.judge(v, tr, "plan")
    if run.tier == "thorough":
        def mutp(r):
            r["linear"][0] += 1
        run.selftest("TracePlan", tr, "plan-linear-range", lambda r: r.get("k") == "plan" and r.get("accepted") and len(r.get("linear", [])) == 2 and r.get("build"),
                     mutp, span=1, heap="3g")
    run.sample(tr, pick={100000, 200001, info["records"] - 5})
    run.cov["distinct_nontrivial"] = info["distinct_nontrivial"]
    run.cov["rule"] = ("plan driver: exhaustive grid (mode x segment size x ordered lists of 0..2 (3 in thorough) store initial blocks x "
                       "output initial block x start 0..25 x stop in {0,start+1,start+3,start+seg,20,30} x final block unknown/known) "
                       "+ cursor shapes (step x block x LIB x resolver answer same/junction/error x stop) + seeded random configurations "
                       "from the full ranges of the property text; each pushed through exec.NewOutputModuleGraph, "
                       "pipeline.BuildRequestDetails, ValidateRequestStartBlock and plan.BuildTier1RequestPlan in tier1's order. "
                       "Non-trivial = accepted request that needs back-filling (BuildStores or ReadExecOut present); distinct by content.")
    # end to end: the client of a fork history reconnects through the REAL tier1 entry point with the cursor of a message it
    # received (preferably one whose block was orphaned afterwards): undo signal for the junction first, then the canonical
    # chain right after it (record "forkresume" of the forks driver, judged by ForkResumeFails of TraceSystem.tla)
    _mc_reconnect(run)
    trf, _ = _system_trace(run, "C12:", "forks", n=(12 if q else 400))
    _st_forkresume(run, trf)
    run.cov["rule"] += (" Plus (forks driver) reconnections with the cursor of a delivered message of a fork history - orphaned or "
                        "canonical block, data or undo message - through service.TestBlocks with a cursor resolver answering from the "
                        "fork tree; the junction is recomputed in TLA+ from the parent links.")
    run.assumptions += ["a pure irreversible-step cursor whose block differs from its LIB is not generated (the server never emits one; "
                        "the code resolves it to start block 0 silently - noted in DESIGN.md)",
                        "requests with stop <= start (other than the rejected start = stop) are outside the stated space"]


GRAPH_RULE = ("random acyclic module graphs (1..12 modules; maps, stores, block indexes; source / clock-only / params-only modules; store "
              "inputs in get and deltas mode; block filters; initial blocks {0,5,10,20}, sometimes inconsistent with the dependencies; "
              "module list sometimes shuffled), filtered by the real manifest.ValidateModules; ")


def C14(run):
    q = run.tier == "quick"
    run.model_check("MCGraph", "MCGraph_quick.cfg" if q else "MCGraph_thorough.cfg", workers=16, timeout=3000)
    if not q:   # all graphs of 4 modules over one initial block (394k states, ~4 min)
        run.model_check("MCGraph", "MCGraph_thorough4.cfg", workers=16, timeout=3000)
    tr = _t(run, "graph.ndjson")
    info = run.harness("graph", tr)
    v = run.validate_sharded("TraceGraph", tr, boundary='"g":', shards=14)
    run.judge(v, tr, "graph", only="C14:")
    if not q:
        def mutg(r):
            r["obs"]["stages"] = list(reversed(r["obs"]["stages"]))
        run.selftest("TraceGraph", tr, "graph-stage-order", lambda r: r.get("k") == "stage" and r.get("valid") and len(r["obs"].get("stages") or []) >= 2 and not r["obs"].get("err"),
                     mutg, span=1)
    run.sample(tr, pick={3, 1000, info["records"] - 1})
    run.cov["distinct_nontrivial"] = info["distinct_nontrivial"]
    run.cov["rule"] = (GRAPH_RULE + "exec.NewOutputModuleGraph is run (watchdog 3 s) for every output module of small graphs and a sample "
                       "for larger ones; the observed staging / used modules / stores are judged by the C14 predicates of Graph.tla. "
                       "Non-trivial = more than two used modules; distinct by content.")
    run.assumptions += ["validity of a graph = accepted by manifest.ValidateModules; a rejection by the staging code is accepted only when "
                        "some used module really has no input at its initial block"]


def C06(run):
    q = run.tier == "quick"
    run.model_check("MCGraph", "MCGraph_quick.cfg" if q else "MCGraph_thorough.cfg", workers=16, timeout=3000)
    if not q:
        run.model_check("MCGraph", "MCGraph_thorough4.cfg", workers=16, timeout=3000)
    tr = _t(run, "sig.ndjson")
    info = run.harness("sig", tr)
    v = run.validate_sharded("TraceGraph", tr, boundary='"g":', shards=14)
    run.judge(v, tr, "sig", only="C06:")
    if not q:
        def muts(r):
            r["changed"] = []
        run.selftest("TraceGraph", tr, "sig-changed-set", lambda r: r.get("k") == "mutation" and len(r.get("changed") or []) >= 2 and not r.get("err"), muts, span=1)
    run.sample(tr, pick={1, 2, 16, info["records"] - 2})
    run.cov["distinct_nontrivial"] = info["distinct_nontrivial"]
    run.cov["rule"] = (GRAPH_RULE + "for each graph: identifiers of all modules through exec.NewOutputModuleGraph(...).ModuleHashes().Get, "
                       "computed twice (determinism); then one mutation of each of 14 classes (code, entrypoint, initial block, kind, "
                       "parameter value, source type, filter query, filter module, add/remove input, swap inputs of different / same kind, "
                       "store input mode, retarget an input) and the transformations rename-all, unrelated additions at a random "
                       "position, binaries moved to other indexes; TraceGraph.tla compares the set of modules whose real identifier "
                       "changed with term inequality of Sig. Every record non-trivial; distinct by content.")
    run.assumptions += ["SHA-1 collisions ignored", "alias import through the manifest reader is not exercised (rename-all models its effect on "
                        "the module protos: prefixModules only renames)", "update policy / value type of a store are not mutation classes "
                        "(the host interface rejects code that does not match them)"]


def C15(run):
    q = run.tier == "quick"
    run.model_check("MCFilter", "MCFilter_quick.cfg" if q else "MCFilter_thorough.cfg", workers=16)
    tr = _t(run, "filter.ndjson")
    info = run.harness("filter", tr)
    v = run.validate("TraceFilter", tr, xss="512m")
    run.judge(v, tr, "filter", only="C15:")
    if not q:
        def mutf(r):
            r["perBlock"][0] = not r["perBlock"][0]
        run.selftest("TraceFilter", tr, "filter-per-block-answer", lambda r: r.get("k") == "filter" and r.get("perBlock") and not r.get("panic") and not r.get("parseErr"),
                     mutf, span=1, xss="512m")
    run.sample(tr, pick={0, 7, 100})
    run.cov["distinct_nontrivial"] = info["distinct_nontrivial"]
    run.cov["rule"] = ("filter driver: random filter texts (nested &&, ||, implicit and, parentheses, single/double quoted and bare keys, "
                       "|| chains up to 15 operands) parsed by the real sqe.Parse; for each a random assignment of 6 keys to 4..11 blocks; "
                       "1..4 expressions evaluated in a row over the SAME bitmap map (aliasing) with RoaringBitmapsApply, KeysApply, "
                       "BlockIndex.Skip and BlockIndex.SkipFromKeys; the real AST, the answers and the index content afterwards are "
                       "judged by Filter.tla. Non-trivial = expression with an operator; distinct by content.")
    run.assumptions += ["parser precedence is not judged: both evaluators are judged on the AST the real parser produced",
                        "end-to-end index-present/absent equivalence is exercised by the C01/C07 system driver"]
    _e2e_part(run, "C15:")
    # job level: a program with a block index and two block-filtered mappers sharing a key, every subset of the segment's files
    # (index file present or absent, outputs cached or not) x every stage: the files left must equal the clean run's
    trj = _t(run, "jobs-idx.ndjson")
    infoj = run.harness("jobs", trj, extra=["-x", "idx"])
    vj = run.validate("TraceJob", trj)
    run.judge(vj, trj, "jobs-idx", only="C15:")
    run.cov["distinct_nontrivial"] += infoj["distinct_nontrivial"]


def _e2e_part(run, prefix):
    """Hook for the end-to-end system driver (registered later in this file)."""
    fn = globals().get("_system_trace")
    if fn:
        fn(run, prefix, "", n=(18 if run.tier == "quick" else 1000))


def C18(run):
    run.model_check("MCWire", "MCWire.cfg", workers=8)
    tr = _t(run, "wire.ndjson")
    info = run.harness("wire", tr)
    v = run.validate_sharded("TraceWire", tr, boundary='"k":', shards=8, xss="1g", heap="4g")
    run.judge(v, tr, "wire", only="C18:")
    if run.tier == "thorough":
        def mutw(r):
            r["enc"]["fast"][-1] = (r["enc"]["fast"][-1] + 1) % 256
        run.selftest("TraceWire", tr, "wire-fast-bytes", lambda r: r.get("k") == "store" and len(r.get("enc", {}).get("fast") or []) > 4 and not r.get("panic"),
                     mutw, span=1, xss="1g", heap="4g")
    run.sample(tr, pick={0, 1})
    run.cov["distinct_nontrivial"] = info["distinct_nontrivial"]
    run.cov["rule"] = ("wire driver: random StoreData contents (0..12 entries, thousands in the thorough tier; empty keys/values, values "
                       "around the 127/128 and 16383/16384 length boundaries, UTF-8 and binary keys, 0..2 delete prefixes) encoded by "
                       "VTproto, ProtoingFast and the standard encoder, every decoder reading every encoder's bytes, Binary round trip, "
                       "size reported by unmarshalVT; and random execout Arrays (0..9 items; 64-bit block numbers, nil / zero / "
                       "negative / nanos-only timestamps, empty payloads and ids, cursors) encoded by Map.MarshalFast and proto.Marshal "
                       "and read by UnmarshalFast and proto.Unmarshal. The bytes of every encoder are decoded by the TLA+ decoder of "
                       "Wire.tla and compared with the content. Non-trivial = more than one entry / item; distinct by content.")
    run.assumptions += ["Go-side equality flags (decoder output == content) are trusted; the byte-level oracle is the TLA+ decoder",
                        "64-bit numbers are compared as 7-bit limb lists", "the standard encoder/decoder are skipped for non-UTF-8 keys (they reject them)"]


def C17(run):
    # TLC enumerates the universe of structurally arbitrary requests and exports one JSON line per state
    exp = _t(run, "requests.ndjson")
    res = run.tlc("Validate", "Validate_export.cfg", env={"VERIF_EXPORT": exp}, workers=1, timeout=600)
    if not res["completed"] or not os.path.exists(exp):
        raise vlib.Infra("request universe export failed:\n" + res["out"][-2000:])
    run.cov["states"] += res.get("distinct", 0)
    run.cov["transitions"] += res.get("generated", 0)
    tr = _t(run, "validate.ndjson")
    info = run.harness("validate", tr, extra=["-in", exp])
    if info.get("stopped_after_hangs"):
        run.cov["note"] = "driver stopped early after %d hangs (each leaves a spinning goroutine)" % info["stopped_after_hangs"]
    v = run.validate_sharded("TraceValidate", tr, boundary='"k":', shards=12)
    run.judge(v, tr, "validate", only="C17:")
    run.sample(tr, pick={5, 40000, info["records"] - 1})
    run.cov["distinct_nontrivial"] = info["distinct_nontrivial"]
    run.cov["exhaustive"] = False
    run.cov["rule"] = ("the request universe of Validate.tla, enumerated by TLC and exported (48,690 requests: one sane module + one module "
                       "arbitrary in every field; two modules with arbitrary kinds / single inputs incl. self and dangling references, "
                       "wrong kinds, absent oneof, nil inner messages; arbitrary environment: output module, start, stop, cursor, mode, "
                       "duplicate names, 0..2 binaries, binary type, nil module list, nil module entry), each materialised as a real "
                       "Request and pushed through ValidateTier1Request, NewOutputModuleGraph, BuildRequestDetails, "
                       "ValidateRequestStartBlock, BuildTier1RequestPlan (tier1 order and error wrapping, 2 s watchdog, recover) and through "
                       "ValidateTier2Request + NewOutputModuleGraph; plus seeded random requests of up to 105 modules x 32 inputs. "
                       "Non-trivial = request that passes the first validation step; distinct by content.")
    run.assumptions += ["robustness exploration with a model-derived input space: no proof of totality",
                        "heap ceiling sampled (1 in 200 requests), watchdog 2 s"]
    run.level = "exploration"


# ------------------------------------------------------------------ end-to-end system driver (C01 C04 C07 C15-e2e C16)
def _only(run, kind):
    """--replay of a system-driver failure: restrict the driver to the failing scenario (same seed => same scenario).
    Replay labels are system-<kind|all>, sched-<kind>, sched-<kind>-termination."""
    rp = getattr(run, "replay", None)
    if rp and rp.get("scenario") is not None and (kind or "all") in (rp.get("driver") or "").split("-"):
        return ["-only", str(rp["scenario"])]
    return []


PRELOAD = {"SUBSTREAMS_DISABLE_PRELOAD_EXEC_FILES": "true"}   # (sic) any value but "", "0", "false" switches the walker's file preloader ON


def _confirm_watchdog(run, first, kind, n, env, prefix, module="TraceSystem"):
    """A request that ran into the harness's WATCHDOG (30 s / 120 s) is a hang only if it hangs again: under memory or I/O
    pressure a healthy request can be stalled that long. Each such violation is re-run alone (same seed, its scenario only), up
    to twice; when it does not reproduce it is withdrawn and the check ends as infrastructure trouble (exit 2), never as a
    violation (rule 1 of DESIGN section 5: timeouts are not verdicts)."""
    import json as _json
    unconfirmed = []
    for v in list(run.violations[first:]):
        try:
            rp = _json.load(open(v["replay"]))
        except Exception:
            continue
        err = str(((rp.get("record") or {}).get("obs") or {}).get("err", ""))
        if "context deadline exceeded" not in err or rp.get("scenario") is None:
            continue
        sigs = set(rp.get("unknown") or [])
        again = False
        for attempt in range(2):
            tr2 = _t(run, "confirm-%s-%d-%d.ndjson" % (kind or "all", rp["scenario"], attempt))
            extra = (["-x", kind] if kind else []) + (["-n", str(n)] if n else []) + ["-only", str(rp["scenario"])]
            run.harness("system", tr2, extra=extra, timeout=3000, env=env, allow_empty=True)
            v2 = run.validate(module, tr2, xss="512m")
            run.cov["traces_validated_against_impl"] -= v2.get("n", 0)
            if any(sigs & set(w for w in b["why"] if w.startswith(prefix)) for b in v2.get("bad", [])):
                again = True
                break
        if not again:
            run.violations.remove(v)
            unconfirmed.append({"scenario": rp["scenario"], "why": sorted(sigs), "replay": v["replay"]})
    if unconfirmed:
        run.cov.setdefault("watchdog_expiries_not_reproduced", []).extend(unconfirmed)
        run.pending_infra = "a request ran into the harness watchdog but completed normally when its scenario was re-run alone (twice): " \
                            "machine under memory / I/O pressure? %s" % unconfirmed


def _system_trace(run, prefix, kind="", n=None, env=None, tag=""):
    tr = _t(run, "system-%s%s.ndjson" % (kind or "all", tag))
    extra = []
    if kind:
        extra += ["-x", kind]
    if n:
        extra += ["-n", str(n)]
    extra += _only(run, kind)
    if run.tier == "thorough" and not _only(run, kind):
        info = run.harness_sharded("system", tr, extra=extra, shards=8, timeout=3000, env=env)   # scenarios are independent per index
    else:
        info = run.harness("system", tr, extra=extra, timeout=3000, env=env)
    v = run.validate_sharded("TraceSystem", tr, boundary='"ev":"prog"', shards=12, xss="512m")
    nviol = len(run.violations)
    run.judge(v, tr, "system-" + (kind or "all") + tag, only=prefix)
    _confirm_watchdog(run, nviol, kind, n, env, prefix)
    if kind != "forks" and kind != "faults" and not _only(run, kind):
        _st_system(run, tr)
    run.cov["distinct_nontrivial"] += info["distinct_nontrivial"]
    run.sample(tr, pick={0, 1})
    return tr, info


SYSTEM_RULE = ("system driver: random module programs for the verifvm runtime (source mapper with sparse/skipped outputs, store of a "
               "random policy and value type - possibly clock-only or params-only -, optional second store reading the first in get or "
               "deltas mode, optional block index + block-filtered output mapper, differing initial blocks), each run through the REAL "
               "tier1 service (request resolution, plan, scheduler, in-process tier2 jobs with harness-controlled completion order and no "
               "ramp-up, squasher, walker, linear pipeline) on a real local state store; per scenario a sequence of requests on one "
               "cache directory: (strategies) 3..5 production/development requests with random start/stop/final block/workers; "
               "(subsets) a complete production run then 4 re-runs on random subsets of the files it left plus crash debris (*.tmp); "
               "(resume) a request then 3 resumptions from cursors of delivered blocks. Judged by TraceSystem.tla against SeqExec "
               "(Exec.tla). Non-trivial = more than one data message; distinct by content.")


def _system_common(run, prefix, kind, mc=True):
    q = run.tier == "quick"
    _system_trace(run, prefix, kind, n=(18 if q else (1000 if kind == "subsets" else 2000)))
    run.cov["rule"] = SYSTEM_RULE
    run.assumptions += ["module programs are DSL programs interpreted by harness/verifvm.go, whose semantics is Exec.tla (trusted: ~300 lines "
                        "of Go against ~150 lines of TLA+); the wazero runtime is out of scope",
                        "block source = the harness's final chain (ids '<n>a'); chains with forks are exercised by C03",
                        "numbers are small integers (no floating-point rounding)"]


def C01(run):
    run.model_check("MCStore", "MCStore_add_quick.cfg", workers=8)      # L3 of the compositional argument (C02)
    run.model_check("MCPlan", "MCPlan_quick.cfg", workers=8)
    _system_common(run, "C01:", "")


def C04(run):
    run.model_check("MCPlan", "MCPlan_quick.cfg", workers=8)
    run.model_check("MCPipeline", "MCPipeline_safe.cfg", workers=8)     # order, no duplicate height without undo, nothing below the start
    _system_common(run, "C04:", "resume")
    _system_trace(run, "C04:", "strategies", n=(14 if run.tier == "quick" else 1000))
    # the same with the walker's output-file preloader switched on (an alternative configuration of the real code)
    _system_trace(run, "C04:", "strategies", n=(14 if run.tier == "quick" else 600), env=PRELOAD, tag="-preload")


def C07(run):
    run.model_check("MCSnap", "MCSnap_quick.cfg", workers=8)
    _system_common(run, "C07:", "subsets")
    # several requests AT THE SAME TIME on one cache directory (the statement names "a concurrent request" among the causes)
    _system_trace(run, "C07:", "concurrent", n=(40 if run.tier == "quick" else 600))
    # a request cancelled in the middle of its parallel phase, then the same request on what it left behind
    _system_trace(run, "C07:", "cancel", n=(24 if run.tier == "quick" else 400))
    # job level, EXHAUSTIVE over the cache files of one segment: every stage x every subset of the segment's files.
    # Design level: Job.tla (transcription of GetExecutionPlan + the job's writes) establishes the job contract on all 2^12 x 3 states
    run.model_check("MCJob", "MCJob.cfg", workers=4)
    tr = _t(run, "jobs.ndjson")
    info = run.harness("jobs", tr)
    v = run.validate("TraceJob", tr)
    run.judge(v, tr, "jobs", only="C07:")
    run.cov["distinct_nontrivial"] += info["distinct_nontrivial"]
    run.cov["job_level"] = ("%d real tier2 jobs: every stage of a three-stage program (2 variants; 4 in the thorough tier) on every subset "
                            "of the cache files of the job's segment (cached outputs, partial and full snapshots; 2^8 subsets), judged by "
                            "TraceJob.tla: succeeds, deletes nothing, every file left equals the clean run's, snapshots of all stores of "
                            "stages <= k and the requested output exist afterwards; the plan of the REAL GetExecutionPlan on each of these "
                            "caches is compared with Job.tla's Plan (drift)" % (info["records"] - 2))
    if run.tier == "thorough":
        def mutj(r):
            r["after"] = [f for f in r["after"] if not (f["kind"] in ("kv", "partial") and f["end"] == 6)]
        def mutp(r):
            r["plan"]["toWrite"] = r["plan"]["toWrite"] + ["st9"]
        run.selftest("TraceJob", tr, "job-plan-stores-to-write", lambda r: r.get("k") == "job" and not r.get("plan", {}).get("skip", True), mutp,
                     start=lambda r: r.get("k") == "jobprog", span=3)
        run.selftest("TraceJob", tr, "job-snapshot-after", lambda r: r.get("k") == "job" and r.get("stage") == 1 and not r.get("err"), mutj,
                     start=lambda r: r.get("k") == "jobprog", span=3)


def C03(run):
    q = run.tier == "quick"
    # store level: ApplyDeltasReverse restores the pre-block content (undo events of the store chains)
    _mc_store(run, "quick" if q else "thorough")
    _store_trace(run, "C03:")
    # design level: Pipeline.tla (gate, undo signalling, client) under every fork history over 7-8 heights x 3 branches with up
    # to 4-5 reorganisations, for a request whose start block cannot be reorganised away
    run.model_check("MCPipeline", "MCPipeline_safe.cfg" if q else "MCPipeline_thorough.cfg", workers=8, timeout=1800)
    # start block ABOVE a junction (D11): with the repaired gate no data below the start block and the client converges
    # (checked), while the undo signal still designates a junction the client never held (open finding: the model must
    # still have that counterexample - it transcribes the code as it is)
    run.model_check("MCPipeline", "MCPipeline_d11.cfg", workers=4, timeout=600)
    res = run.tlc("MCPipeline", "MCPipeline_d11_undo.cfg", workers=2, timeout=300, expect_violation=True)
    run.cov["design_level_open_finding_D11_undo_signal_reproduced"] = bool(res.get("invariant_violated"))
    _mc_reconnect(run)
    # pipeline level: fork histories produced by the real bstream/forkable, through the real tier1 pipeline
    trf, _ = _system_trace(run, "C03:", "forks", n=(24 if q else 1500))
    if not q:
        def mutf(r):
            for m in r["obs"]["resp"]:
                if m["kind"] == "data":
                    m["id"] = m["id"] + "x"
                    return
        run.selftest("TraceSystem", trf, "fork-message-id", lambda r: r.get("ev") == "forkrun" and not r["obs"].get("err") and
                     any(m["kind"] == "data" for m in r["obs"]["resp"]), mutf, start=lambda r: r.get("ev") == "prog", xss="512m")
        _st_forkresume(run, trf)
    run.cov["rule"] = ("fork histories: random fork trees over 2..5 heights (1..2 branches per height, extra extensions, and 'ping-pong' "
                       "histories where two branches alternately overtake each other so that the same blocks are applied, undone, "
                       "re-applied and undone again), random parent-first arrival order and finality progress, turned into new / undo / "
                       "irreversible / stalled steps by the REAL bstream/forkable and fed to the real tier1 pipeline (development and "
                       "production mode, start at, below or above the first forked height) on generated module programs whose stores "
                       "create, update, grow, shrink and delete keys; after every step the store map and sizes are logged; the response "
                       "stream is replayed by the client model of TraceSystem.tla; then the client reconnects with the cursor of a "
                       "message it received (orphaned or canonical block) and the client model continues over the resumed stream. "
                       "Plus the undo events of the store driver. "
                       "Non-trivial = more than 3 fork steps; distinct by content.")
    run.assumptions += ["bstream/forkable is trusted as the producer of steps", "no fork branches directly off the initial LIB block "
                        "(forkable reports no junction for it when initialised from a bare reference: harness artefact)"]


def C16(run):
    q = run.tier == "quick"
    run.model_check("MCWorker", "MCWorker.cfg", workers=1)
    run.model_check("MCWorker", "MCWorker_transient.cfg", workers=1)
    _system_trace(run, "C16:", "faults", n=(8 if q else 320))
    run.cov["rule"] = ("fault scenarios: per generated program, production runs on a cold cache with 1..3 transient faults placed on random "
                       "ProcessRange calls of the request (worker unavailable before the call, stream dropped mid-way, service overloaded, "
                       "connection lost after the job wrote its files) and, in both modes, a deterministic failure of the source mapper at a "
                       "random block of the range; jobs go through the REAL work.RemoteWorker (retry loop, error classification) over an "
                       "in-memory gRPC connection to the REAL exported Tier2Service.ProcessRange (toGRPCError, status codes on the wire); "
                       "the stream and the returned error code are judged by TraceSystem.tla. Non-trivial = every run.")
    run.assumptions += ["derr.RetryContext's real back-off (1 s Fibonacci) is kept, so the number of fault runs per tier is modest",
                        "deadline-exceeded x3 (documented to fail the job) is not among the injected transient faults"]
    run.level = "fault_enumeration"


def C05(run):
    q = run.tier == "quick"
    # design level: exhaustive interleavings on small grids, every cache state an earlier complete run can leave; liveness with fairness
    # (MCSched_3x3_partials: every subset of the partial files on an otherwise cold cache - what a crash before any merge leaves)
    for cfgname in (["MCSched_quick.cfg", "MCSched_2x3.cfg", "MCSched_3x4.cfg", "MCSched_3x3_partials.cfg", "MCSched_4x3.cfg"] if q else ["MCSched_quick.cfg", "MCSched_2x3.cfg", "MCSched_3x4.cfg", "MCSched_3x3_partials.cfg", "MCSched_4x3.cfg", "MCSched_4x4.cfg", "MCSched_3x4w.cfg", "MCSched_2S.cfg"]):
        run.model_check("MCSched", cfgname, workers=16, timeout=3000)
    # arbitrary cache subsets (every subset of the snapshot / partial / output files of a 2x3 grid): since the repair of
    # dependenciesCompleted (1cdc7a28) every invariant holds there too - before it, JobInputsComplete was violated (D7)
    run.model_check("MCSched", "MCSched_2x3_any.cfg", workers=8, timeout=1200)
    # real scheduler: every Update of real tier1 runs (hook), random job completion orders, cold / warm / subset caches
    tr = _t(run, "system-sched.ndjson")
    total = 0
    for kind, n in (("strategies", 10 if q else 1000), ("subsets", 12 if q else 600), ("schedcex", 4 if q else 100)):
        trk = _t(run, "system-sched-%s.ndjson" % kind)
        if q or _only(run, kind):
            info = run.harness("system", trk, extra=["-x", kind, "-n", str(n)] + _only(run, kind), timeout=3000)
        else:
            info = run.harness_sharded("system", trk, extra=["-x", kind, "-n", str(n)], shards=8, timeout=3000)
        v = run.validate_sharded("TraceSched", trk, boundary='"ev":"prog"', shards=12, xss="512m")
        run.judge(v, trk, "sched-" + kind, only="C05:")
        if kind == "strategies" and not _only(run, kind):
            _st_sched(run, trk)
        # a run that hangs or fails is reported by TraceSystem (C05 liveness on the real code: the request must terminate)
        v2 = run.validate_sharded("TraceSystem", trk, boundary='"ev":"prog"', shards=12, xss="512m")
        nv = len(run.violations)
        run.judge(v2, trk, "sched-" + kind + "-termination", only="C05:")
        _confirm_watchdog(run, nv, kind, n, None, "C05:")
        run.cov["distinct_nontrivial"] += info["distinct_nontrivial"]
        total += info["records"]
    # the repository's OWN integration tests (compiled WASM modules on the real runtime, segment size 10, one and five workers):
    # every scheduler they build is traced through the same hook and validated by the same specification
    if not getattr(run, "replay", None):
        rt, passed, tail = run.repo_test_traces("./test/", _t(run, "repo-tests"))
        v = run.validate("TraceSched", rt, xss="512m")
        run.judge(v, rt, "sched-repository-tests", only="C05:")
        run.cov["repository_tests_traced"] = {"package": "./test/", "tests_passed": passed}
    run.sample(trk, pick={3, 4, 5})
    run.cov["rule"] = ("scheduler traces: every Scheduler.Update (verif hook at the end of Update: message, unit matrix, segmentCompleted, "
                       "workers, walker, flags) of real tier1 runs on generated programs with 1..4 workers, harness-chosen random job "
                       "completion orders and no ramp-up, on cold caches, caches left by earlier requests, random subsets of cache files, "
                       "and a replay of a design-level counterexample shape (two store stages, lower store cached ahead); each step is "
                       "replayed through Sched.tla's Update on the observed pre-state. Non-trivial = run with more than one data message.")
    run.assumptions += ["message pools are modelled as sets (a duplicate pending MsgScheduleNextJob is not distinguished)",
                        "one store module per store stage in the design-level model; real traces have any number",
                        "the walker's polling of a missing file is a fair stuttering step"]
