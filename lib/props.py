"""One function per property: what TLC explores at design level, which harness drivers observe the real
code, which trace specification judges the observations."""
import os

import vlib


def _t(run, name):
    return os.path.join(run.scratch, name)


def C13(run):
    q = run.tier == "quick"
    run.model_check("MCSegments", "MCSegments_quick.cfg" if q else "MCSegments_thorough.cfg")
    tr = _t(run, "segments.ndjson")
    info = run.harness("segments", tr)
    v = run.validate("TraceSegments", tr)
    run.judge(v, tr, "segments")
    run.sample(tr, pick={700, 20000, info["records"] - 2})
    run.cov["distinct_nontrivial"] = info["distinct_nontrivial"]
    run.cov["exhaustive"] = True
    run.cov["rule"] = ("exhaustive (size 1..16, initial 0..%s, end initial+1..%s) segmenters with every index first-1..last+2 "
                       "and every block asked to IndexForStartBlock/IndexForEndBlock; every Range.Split over 0..25 x chunk "
                       "1..16; every sorted disjoint range list over 0..%s for Merged; plus seeded random segmenters near "
                       "2e9 and random range lists over 0..64. Non-trivial = more than one segment / chunk / range; "
                       "distinct = by record content" % (("32", "48", "8") if q else ("64", "96", "10")))
    run.assumptions += ["the C13 predicates of spec/Segments.tla (Tiles, StartIndexOK, EndIndexOK, SplitOK, MergedOK) judge "
                        "the answers OBSERVED from block.Segmenter/Range.Split/Ranges.Merged; TLC (MCSegments) checks the "
                        "reference operators satisfy the same predicates"]
