#!/usr/bin/env python3
"""Regenerates /verif/MANIFEST.json from the table below (single source of truth for the interface)."""
import json
import os

VERIF = os.path.dirname(os.path.dirname(os.path.abspath(__file__)))
ALL = ["C%02d" % i for i in range(1, 19)]

BASELINE_OFF = ("cd /repo && go build ./... && go test -vet=off -count=1 -timeout 25m ./...  # guard off: no -tags verif; "
                "info::TestBasicInfo/TestExtendedInfo need the network and are in BASELINE.always_fail")

CHECKS = {
    "C13": dict(
        engine="segments",
        level=("model_checking", "TLC exhaustively checks that the reference segment arithmetic of spec/Segments.tla satisfies the "
               "tiling predicates over the whole stated space; the real block.Segmenter/Range.Split/Ranges.Merged are run over "
               "the same exhaustive space (plus random large values) and every OBSERVED answer is judged by the same TLA+ "
               "predicates in TraceSegments.tla. For a pure arithmetic property over a finite stated space this is a complete "
               "decision on the real code.", "6/C13"),
        note="trusts TLC's evaluation of the predicates and the 40-line Go driver that logs the answers; block numbers above 2^31 not covered (TLC ints)",
        technique="TLA+ spec (Segments.tla) model-checked by TLC + trace validation of exhaustive real-code answers"),
}

NOT_YET = "machinery for this property is not built yet in this revision (work in progress; see DESIGN.md section 9 for the plan)"


def main():
    checks = []
    for pid in ALL:
        c = CHECKS.get(pid)
        if not c:
            continue
        cat, text, ref = c["level"]
        checks.append(dict(
            property_id=pid,
            quick_cmd="./check %s --tier quick" % pid,
            thorough_cmd="./check %s --tier thorough" % pid,
            evidence_file="/verif/evidence/%s.json" % pid,
            replay_cmd_template="./check %s --replay {path}" % pid,
            engine=c["engine"],
            level_claimed=dict(category=cat, text=text, design_ref=ref),
            level_note=c["note"],
            technique=c["technique"]))
    na = [dict(property_id=p, reason=NOT_YET) for p in ALL if p not in CHECKS]
    m = dict(
        version=1,
        setup_cmd="./setup.sh",
        hooks=dict(guard="verif", enable="go build -tags verif (harness module under /verif/harness, replace => /repo)",
                   baseline_off_cmd=BASELINE_OFF, source_commits=HOOK_COMMITS, add_only=True),
        engines=[dict(name="vharness", path="/verif/harness", serves_properties=sorted(CHECKS),
                      kind_free_text="Go conformance harness (real substreams code) + TLA+ specs under /verif/spec judged by TLC")],
        checks=checks,
        notes="All checks: ./check <id> [--tier quick|thorough]; VERIF_SEED honoured; exit 2 = infrastructure trouble (never a violation).",
        not_applicable=na)
    json.dump(m, open(os.path.join(VERIF, "MANIFEST.json"), "w"), indent=1)
    print("wrote MANIFEST.json with %d checks, %d not_applicable" % (len(checks), len(na)))


HOOK_COMMITS = []

if __name__ == "__main__":
    main()
