#!/usr/bin/env python3
"""Regenerates /verif/MANIFEST.json from the table below (single source of truth for the interface)."""
import json
import os

VERIF = os.path.dirname(os.path.dirname(os.path.abspath(__file__)))
ALL = ["C%02d" % i for i in range(1, 19)]

BASELINE_OFF = ("cd /repo && go build ./... && go test -vet=off -count=1 -timeout 25m ./...  # guard off: no -tags verif; "
                "info::TestBasicInfo/TestExtendedInfo need the network and are in BASELINE.always_fail")

HOOK_COMMITS = []

CHECKS = {
    "C13": dict(
        engine="segments",
        level=("model_checking", "TLC exhaustively checks that the reference segment arithmetic of spec/Segments.tla satisfies the "
               "tiling predicates over the whole stated space; the real block.Segmenter/Range.Split/Ranges.Merged are run over "
               "the same exhaustive space (plus random large values) and every OBSERVED answer is judged by the same TLA+ "
               "predicates in TraceSegments.tla. For a pure arithmetic property over a finite stated space this is a complete "
               "decision on the real code.", "6/C13"),
        note="trusts TLC's evaluation of the predicates and the 40-line Go driver that logs the answers; block numbers above 2^31 not covered (TLC ints)",
        technique="TLA+ spec (Segments.tla) model-checked by TLC + trace validation of exhaustive real-code answers"),
}


STORE_NOTE = "trusts: TLC, the Go projection of store bytes onto typed values (harness/store.go), small-integer value domain (no float rounding); real dstore local files, uncompressed for the bulk"
STORE_TECH = "TLA+ store spec (Store.tla/MCStore.tla) model-checked by TLC + trace validation (TraceStore.tla) of real FullKV/PartialKV executions"
CHECKS.update({
    "C02": dict(engine="store", level=("model_checking", "TLC exhaustively explores the store model MCStore.tla (every block of <=2 operations over 3 keys x 2 values x ordinals {0,1} x delete_prefix, cuts, undo; per update policy) checking MergedEqualsSequential (merge of the partials = sequential execution) in every reachable state; the real FullKV/PartialKV objects are then driven through the same small scope exhaustively for all 27 (policy, value type) pairs plus seeded random chains, and TraceStore.tla judges every observed step with the operators of Store.tla.", "6/C02"), note=STORE_NOTE, technique=STORE_TECH),
    "C08": dict(engine="store", level=("model_checking", "TLC exhaustively explores the store model MCStore.tla (every block of <=2 operations over 3 keys x 2 values x ordinals {0,1} x delete_prefix, cuts, undo; per update policy) checking that the implementation's way of answering reads from the deltas (transcribed) equals the property-level definition for every pre-content, block, key and ordinal; the real FullKV/PartialKV objects are then driven through the same small scope exhaustively for all 27 (policy, value type) pairs plus seeded random chains, and TraceStore.tla judges every observed step with the operators of Store.tla.", "6/C08"), note=STORE_NOTE, technique=STORE_TECH),
    "C09": dict(engine="store", level=("model_checking", "TLC exhaustively explores the store model MCStore.tla (every block of <=2 operations over 3 keys x 2 values x ordinals {0,1} x delete_prefix, cuts, undo; per update policy) checking the model; replay of the recorded operation log on twin full and partial stores is compared delta-for-delta (bytes and typed) with the original execution; the real FullKV/PartialKV objects are then driven through the same small scope exhaustively for all 27 (policy, value type) pairs plus seeded random chains, and TraceStore.tla judges every observed step with the operators of Store.tla.", "6/C09"), note=STORE_NOTE, technique=STORE_TECH),
    "C11": dict(engine="store", level=("model_checking", "TLC exhaustively explores the store model MCStore.tla (every block of <=2 operations over 3 keys x 2 values x ordinals {0,1} x delete_prefix, cuts, undo; per update policy) checking SizeExact (incremental accounting = sum of key and value lengths) after every block, merge, undo; the real FullKV/PartialKV objects are then driven through the same small scope exhaustively for all 27 (policy, value type) pairs plus seeded random chains, and TraceStore.tla judges every observed step with the operators of Store.tla.", "6/C11"), note=STORE_NOTE + "; the 1 GiB limit itself is not provoked (unexported constant): exact accounting at every step is what is checked", technique=STORE_TECH),
    "C10": dict(engine="snap", level=("model_checking", "TLC exhaustively checks the naming/listing model MCSnap.tla (all sets of <=4 snapshots over 0..6, all boundaries); the real Save/Load/ListSnapshotFiles are driven with random binary contents, 10-digit ranges and crash debris and every observed round trip and listing is judged by TraceSnap.tla against the abstract file set.", "6/C10"),
                note="trusts TLC and hex logging of contents; only the local dstore; contents of thousands of entries only in the thorough tier", technique="TLA+ spec (MCSnap.tla) + trace validation (TraceSnap.tla, TraceStore.tla) of real Save/Load/List"),
})

CHECKS["C12"] = dict(engine="plan", level=("model_checking", "TLC exhaustively checks that the reference resolution/plan of Plan.tla (transcribed from resolve.go and requestplan.go) satisfies the coverage predicates over a bounded configuration grid (MCPlan); the real BuildRequestDetails + ValidateRequestStartBlock + BuildTier1RequestPlan are run in tier1's order over an exhaustive grid, cursor shapes with every resolver answer, and seeded random configurations from the property's full ranges (about 5e5 records), and TracePlan.tla judges every observed (start, hand-off, gate, ranges, undo signal, error) with the same predicates. End to end: the client of a fork history (real bstream/forkable steps through the real tier1 pipeline) reconnects through the real tier1 entry point with the cursor of a message it received, orphaned or not; TraceSystem.tla recomputes the junction from the fork tree and requires the undo signal for it first, then exactly the canonical chain right after it.", "6/C12"),
    note="the literal product space (1e11) is sampled beyond the exhaustive sub-grid; stop <= start and irreversible-step cursors with block != LIB are outside the generated space; stub cursor resolver and final-block callbacks",
    technique="TLA+ spec (Plan.tla/MCPlan.tla) model-checked by TLC + trace validation (TracePlan.tla) of the real resolution and planning code")

CHECKS["C14"] = dict(engine="graph", level=("model_checking", "TLC enumerates every acyclic module graph of up to 3 (4 in the thorough tier) modules and checks that the transcription of computeStages satisfies the staging predicates of Graph.tla; the real exec.NewOutputModuleGraph is run on thousands of random valid graphs of up to 12 modules (every output module) under a watchdog and TraceGraph.tla judges the OBSERVED staging, used modules and store list with the same predicates (drift against the transcription is reported separately).", "6/C14"),
    note="validity = manifest.ValidateModules; graphs above 4 modules are sampled, not enumerated; staging termination is a 3 s watchdog",
    technique="TLA+ spec (Graph.tla/MCGraph.tla) model-checked by TLC + trace validation (TraceGraph.tla) of real stagings")
CHECKS["C06"] = dict(engine="sig", level=("model_checking", "Graph.tla defines the cache identity as a term Sig (a perfect hash); TLC checks on every graph of up to 3 (4) modules that a single-field mutation changes Sig of exactly the module and its descendants and that renaming changes nothing; real identifiers (exec.NewOutputModuleGraph(...).ModuleHashes()) of random graphs are computed before and after 14 classes of single-field mutations and 3 identity-preserving transformations and TraceGraph.tla requires 'real identifier changed <=> Sig changed' for every module.", "6/C06"),
    note="SHA-1 collisions ignored; alias import through the manifest reader is represented by rename-all; three open known findings (input mode / same-kind input order / retarget inside ancestors are not hashed)",
    technique="TLA+ term-algebra spec of the identifier (Graph.tla Sig) checked by TLC + trace validation of real module hashes under mutation")

CHECKS["C15"] = dict(engine="filter", level=("model_checking", "TLC proves on the whole bounded space (all expressions of depth <= 2 over 3 keys x all assignments to 2 (3) blocks) that evaluating Filter.tla's expression on the pre-computed index selects exactly the blocks whose own keys satisfy it; the real parser, RoaringBitmapsApply, KeysApply, BlockIndex.Skip and SkipFromKeys are run on random expressions and assignments (several expressions over one shared index) and TraceFilter.tla judges every answer, and the index content afterwards, on the AST the real parser produced.", "6/C15"),
    note="parser precedence is not judged; NOT is rejected by the parser and therefore outside the accepted expressions; end-to-end index presence/absence is covered by the system driver when registered",
    technique="TLA+ spec (Filter.tla/MCFilter.tla) model-checked by TLC + trace validation (TraceFilter.tla) of the real sqe evaluators")

CHECKS["C18"] = dict(engine="wire", level=("model_checking", "Wire.tla contains a byte-level protobuf decoder for StoreData and Array/Item written in TLA+; TLC proves Decode(Encode(m)) = m over a tiny alphabet (MCWire) and then decodes the ACTUAL bytes produced by the hand-written encoders (ProtoingFast, VTproto, Map.MarshalFast) and by the standard encoder for random contents, comparing with the logged content; the cross-reading results of every Go decoder on every encoder's bytes and the size reported by unmarshalVT are judged in the same trace.", "6/C18"),
    note="edge of what TLA+ is for: messages of thousands of entries only in the thorough tier (decoder cost grows with entries); 64-bit numbers as 7-bit limbs; Go-side content equality flags trusted",
    technique="TLA+ byte-level wire-format spec (Wire.tla) checked by TLC + trace validation (TraceWire.tla) decoding the real encoders' bytes")

CHECKS["C17"] = dict(engine="validate", level=("exploration", "Validate.tla defines the universe of structurally arbitrary requests; TLC enumerates it (48,690 requests) and exports every state; the harness materialises each as a real Request and pushes it through the tier1 and tier2 validation, graph construction, hashing, staging, resolution and planning code under recover(), a 2 s watchdog and a sampled heap ceiling; TraceValidate.tla judges each observed outcome against the outcome protocol (accepted, or rejected with invalid-argument; never crashed / hung). Model-derived robustness exploration, not a proof of totality.", "6/C17"),
    note="the step sequence of the driver (validation, graph, details, start block, plan) mirrors Tier1Service.Blocks; for every request without a start cursor that it rejects after the graph stage, the REAL in-process entry point (Tier1Service.TestBlocks = graph construction + blocks(), mapped by the real toConnectError through the verif hook) is called as well and judged; a difference between the two is reported as drift (0 in the current tree); the three early returns of Blocks are reproduced by the driver (an ErrInvalidArg counts as invalid-argument)",
    technique="TLA+ request-universe spec (Validate.tla) enumerated by TLC and replayed into the real request pipeline + trace validation (TraceValidate.tla)")
HOOK_COMMITS.append("41c409bf")

SYS_NOTE = "trusted: the ~300-line Go interpreter of the module DSL (harness/verifvm.go) against its TLA+ semantics (Exec.tla); chain = the harness's final chain; small-integer values; D7 / D9 / D14 - D19 / D21 were found by these checks and repaired (see known_findings.json)"
SYS_TECH = "TLA+ reference execution (Exec.tla SeqExec + Plan.tla) + trace validation (TraceSystem.tla) of real tier1/tier2 end-to-end runs"
CHECKS["C01"] = dict(engine="system", level=("model_checking", "End-to-end: generated module programs run through the REAL tier1 service (resolution, plan, scheduler, in-process tier2 jobs in a harness-controlled completion order, squasher, walker, linear pipeline, real files) and every observed response stream / final store map is judged by TraceSystem.tla against SeqExec of Exec.tla - one sequential execution of the whole module graph, with the hand-off taken from Plan.tla. Design level: the compositional lemmas are TLC-checked models (MCStore: merge = sequential; MCPlan: coverage of the range; Sched/C05: jobs start with complete inputs). Scenarios: sequences of production / development requests with random ranges, final block, segment size, workers and job completion order over one cache directory.", "6/C01"), note=SYS_NOTE, technique=SYS_TECH)
CHECKS["C04"] = dict(engine="system", level=("model_checking", "End-to-end: generated module programs run through the REAL tier1 service (resolution, plan, scheduler, in-process tier2 jobs in a harness-controlled completion order, squasher, walker, linear pipeline, real files) and every observed response stream / final store map is judged by TraceSystem.tla against SeqExec of Exec.tla - one sequential execution of the whole module graph, with the hand-off taken from Plan.tla. Design level: the compositional lemmas are TLC-checked models (MCStore: merge = sequential; MCPlan: coverage of the range; Sched/C05: jobs start with complete inputs). Stream-shape predicates (range, order, no duplicate, no gap from the hand-off on, cursor = block) on every run; for resumption the request is re-issued from the cursor of delivered blocks and the resumed stream must be the suffix of the original.", "6/C04"), note=SYS_NOTE + "; resumption is checked from cursors of delivered (final) blocks", technique=SYS_TECH)
CHECKS["C07"] = dict(engine="system", level=("model_checking", "End-to-end: generated module programs run through the REAL tier1 service (resolution, plan, scheduler, in-process tier2 jobs in a harness-controlled completion order, squasher, walker, linear pipeline, real files) and every observed response stream / final store map is judged by TraceSystem.tla against SeqExec of Exec.tla - one sequential execution of the whole module graph, with the hand-off taken from Plan.tla. Design level: the compositional lemmas are TLC-checked models (MCStore: merge = sequential; MCPlan: coverage of the range; Sched/C05: jobs start with complete inputs). After a complete run, the request is re-run on random, structured and per-module subsets of the files it left (plus *.tmp crash debris); outputs must equal SeqExec and the request must complete. Job level: TraceJob.tla states the contract of one tier2 job and the real job is run for every stage on EVERY subset of the cache files of its segment (exhaustive: 2^8 subsets x 3 stages x 2-4 program variants), the files left being compared with a clean run's.", "6/C07"), note=SYS_NOTE + "; request-level subsets are sampled (5 per scenario), job-level subsets are enumerated", technique=SYS_TECH)

CHECKS["C03"] = dict(engine="system", level=("model_checking", "Fork histories (random fork trees, arrival orders and finality progress, including ping-pong histories that re-apply and re-undo the same blocks) are turned into steps by the REAL bstream/forkable and fed to the real tier1 pipeline on generated module programs; after every step the store map and sizes, and at the end the response stream, are judged by TraceSystem.tla: stores = SeqExec over the canonical chain rebuilt from the steps, the client model (keep data, drop above lastValidBlock on undo) converges on the canonical chain, undo signals designate held blocks, never two blocks at one height without an undo; the client then reconnects with the cursor of a message it received (orphaned or canonical block) and the client model continues over the resumed stream (undo signal for the junction, convergence). Store level: TLC checks ReverseDeltas restores the pre-block content in MCStore and the undo events of the store chains are trace-validated. Design level: Pipeline.tla (gate, undo signalling, client) is explored by MCPipeline under every fork history over 7-8 heights x 3 branches; the message sequence it predicts from the steps of each real run is compared with the observed stream (drift).", "6/C03"),
    note="bstream/forkable trusted as producer of steps; no fork directly on the initial LIB (harness artefact); D11 (start above a fork junction): data below the start block repaired by c0dae499, the undo signal's designation remains an open known finding",
    technique="TLA+ reference execution over the canonical chain + client model (TraceSystem.tla) validating real pipeline runs on forkable-generated histories")
HOOK_COMMITS.append("9a781b5e")

CHECKS["C16"] = dict(engine="system", level=("fault_enumeration", "Transient faults (unavailable before the call, stream dropped mid-way, overloaded, connection lost after the job wrote its files; 1..3 per request, placed on random ProcessRange calls including retries) and a deterministic module failure at a random block of the range (both modes) are injected on the client side of an in-memory gRPC connection between the REAL work.RemoteWorker (retry loop, classification) and the REAL exported Tier2Service.ProcessRange (real error mapping, status codes on the wire); the delivered stream and the returned error code are judged by TraceSystem.tla against SeqExec: transient faults must not change the outputs, a deterministic failure must end with invalid-argument after a correct prefix that stops before the failing block. Design level: MCWorker.tla (retry loop x job idempotence) is model-checked with fairness for every placement of up to 2 faults over 3 jobs.", "6/C16"),
    note="real derr back-off (>= 1 s per retry) limits the number of fault runs; deadline-exceeded x3 is specified to fail the job and is not injected; fault placements are sampled, not enumerated against the real code",
    technique="TLA+ retry/idempotence model (MCWorker.tla) checked by TLC + trace validation (TraceSystem.tla) of real RemoteWorker/tier2 runs under injected faults")

CHECKS["C05"] = dict(engine="system", level=("model_checking", "Sched.tla is a transcription of orchestrator/stage (unit matrix, shadowing, dependenciesCompleted, NextJob, TryMerge, MoveSegmentCompletedForward, FetchStoresState) and of Scheduler.Update; MCSched.tla closes it with an environment (workers finishing in any order, merges, cache contents) and TLC checks, for every interleaving of small configurations (2-4 stages x 3-4 segments, 1-2 workers; caches: empty, prefix, every subset of the partial files, every subset of all files of the 2x3 grid): no invalid transition, every started job has its lower stores complete, every store segment merged once and in order, worker count within bounds, and termination under weak fairness. Conformance: the scheduler hook records every real Scheduler.Update of real tier1 runs (matrix, counters, walker, flags); TraceSched.tla replays the transcription step by step (difference = drift) and evaluates the property predicates on the OBSERVED matrices; TraceSystem.tla checks each request terminates with the right outcome. Cache shapes of former TLC counterexamples are rebuilt on the real code (schedcex); merges and walker attempts are delayed by harness-owned gates (hooks) so that the scheduler's races are reproducible. The repairs of the scheduler (eb31da19, ae4826d2, 1cdc7a28) were designed and model-checked in this specification before they were applied to the code.", "6/C05"),
    note="the design model is exhaustive only for the small configurations listed; real runs are sampled; the three ways a job used to be started before a lower store was complete (snapshot gap, first segment of a later-starting stage, indirect lower stage) and the shadow-marking defects were found by this check and repaired",
    technique="TLA+ transcription of the scheduler (Sched.tla) model-checked by TLC in a closed environment (MCSched.tla) + trace validation of every real Scheduler.Update (TraceSched.tla)")
HOOK_COMMITS.append("d1d8afab")
HOOK_COMMITS.append("d2fc1936")
HOOK_COMMITS.append("6afabbb7")
HOOK_COMMITS.append("33191bfc")
HOOK_COMMITS.append("84361e8f")

NOT_YET = "machinery for this property is not built yet in this revision (work in progress; see DESIGN.md section 9 for the plan)"


def main():
    checks = []
    for pid in ALL:
        c = CHECKS.get(pid)
        if not c:
            continue
        cat, text, ref = c["level"]
        checks.append(dict(
            property_id=pid,
            quick_cmd="./check %s --tier quick" % pid,
            thorough_cmd="./check %s --tier thorough" % pid,
            evidence_file="/verif/evidence/%s.json" % pid,
            replay_cmd_template="./check %s --replay {path}" % pid,
            engine=c["engine"],
            level_claimed=dict(category=cat, text=text, design_ref=ref),
            level_note=c["note"],
            technique=c["technique"]))
    na = [dict(property_id=p, reason=NOT_YET) for p in ALL if p not in CHECKS]
    m = dict(
        version=1,
        setup_cmd="./setup.sh",
        hooks=dict(guard="verif", enable="go build -tags verif (harness module under /verif/harness, replace => /repo)",
                   baseline_off_cmd=BASELINE_OFF, source_commits=HOOK_COMMITS, add_only=True),
        engines=[dict(name="vharness", path="/verif/harness", serves_properties=sorted(CHECKS),
                      kind_free_text="Go conformance harness (real substreams code) + TLA+ specs under /verif/spec judged by TLC")],
        checks=checks,
        notes="All checks: ./check <id> [--tier quick|thorough]; VERIF_SEED honoured; exit 2 = infrastructure trouble (never a violation).",
        not_applicable=na)
    json.dump(m, open(os.path.join(VERIF, "MANIFEST.json"), "w"), indent=1)
    print("wrote MANIFEST.json with %d checks, %d not_applicable" % (len(checks), len(na)))


if __name__ == "__main__":
    main()
