#!/usr/bin/env python3
"""dbgtrace.py <driver> <TraceModule> [--x kind] [--n N] [--seed S] [--tier T] [--boundary B] [--keep DIR]
Developer tool: run one harness driver, validate its trace with one trace specification, print every failing
record (all signatures, known or not) with a short summary. Not registered in MANIFEST.json."""
import argparse, json, os, shutil, sys
sys.path.insert(0, os.path.dirname(__file__))
import vlib

ap = argparse.ArgumentParser()
ap.add_argument("driver"); ap.add_argument("module")
ap.add_argument("--x", default=""); ap.add_argument("--n", default=""); ap.add_argument("--seed", type=int, default=1)
ap.add_argument("--tier", default="quick"); ap.add_argument("--boundary", default='"ev":"prog"'); ap.add_argument("--keep", default="")
ap.add_argument("--full", action="store_true"); ap.add_argument("--only", default="")
a = ap.parse_args()
run = vlib.Run("DBG", a.tier, a.seed)
tr = os.path.join(run.scratch, "t.ndjson")
extra = (["-x", a.x] if a.x else []) + (["-n", a.n] if a.n else []) + (["-only", a.only] if a.only else [])
info = run.harness(a.driver, tr, extra=extra, timeout=3000)
print(info)
v = run.validate_sharded(a.module, tr, boundary=a.boundary, shards=12, xss="512m")
lines = open(tr).read().splitlines()
print("records", v["n"], "bad", len(v["bad"]), "drift", len(v["drift"]))
for b in v["bad"]:
    r = json.loads(lines[b["i"] - 1])
    sc = None
    for k in range(b["i"] - 1, -1, -1):
        if '"ev":"prog"' in lines[k]:
            sc = json.loads(lines[k]).get("scenario"); break
    print("----", b["i"], "scenario", sc, b["why"])
    if a.full:
        print(json.dumps(r)[:6000])
    else:
        print("cfg", json.dumps(r.get("cfg")))
        if "filesBefore" in r:
            print("files", [(x["mod"], x["kind"], x["start"], x["end"]) for x in r["filesBefore"] if not x["tmp"]])
        o = r.get("obs") or {}
        print("err", str(o.get("err"))[:600], o.get("code"))
        print("data", [(x["num"], x.get("payload")) for x in o.get("resp", []) if x.get("kind") == "data"][:40])
for d in v["drift"][:10]:
    print("drift", d)
if a.keep:
    os.makedirs(a.keep, exist_ok=True)
    shutil.copy(tr, os.path.join(a.keep, "t.ndjson"))
shutil.rmtree(run.scratch, ignore_errors=True)
