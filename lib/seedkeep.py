#!/usr/bin/env python3
"""seedkeep.py <id> <property> <caught:yes|no|tier> <signature> -- "<needs>" : keep a confirmed seeded change under /verif/seeded/<id>/"""
import json, os, shutil, sys, glob
sid, prop, caught, sig, needs = sys.argv[1], sys.argv[2], sys.argv[3], sys.argv[4], sys.argv[5]
src = "/tmp/seeded/%s" % sid
dst = "/verif/seeded/%s" % sid
os.makedirs(dst, exist_ok=True)
for f in glob.glob(src + "/*"):
    b = os.path.basename(f)
    if b in ("patch.diff", "NOTES.md", "demo_path.txt") or b.endswith("_test.go") or b.endswith(".go"):
        shutil.copy(f, dst)
meta = dict(id=sid, property=prop, needs_to_manifest=needs,
            confirmed=dict(script="lib/seedverify.sh %s" % sid, builds=True, existing_suite_passes=True,
                           demo_fails_with_change=True, demo_passes_without=True),
            ran="lib/seedrun.sh %s %s (applies patch.diff to /repo, runs ./check %s --tier quick, reverts)" % (sid, prop, prop),
            detected=caught, detected_by_signature=sig, source="independent sub-agent given only the property text")
json.dump(meta, open(dst + "/meta.json", "w"), indent=1)
print("kept", dst)
