#!/bin/bash
# seedstage.sh <property> <seed-id>: collect a sub-agent's work from its scratch worktree /tmp/wt-agent-<property>
# (source change + one new *_test.go demonstration, both uncommitted) into /tmp/seeded/<seed-id>/ in the layout
# seedverify.sh / seedrun2.sh / seedkeep.py expect, then remove the worktree.
set -u
p=$1; id=$2
wt=/tmp/wt-agent-$p
[ -d $wt ] || { echo "no worktree $wt"; exit 2; }
rm -rf /tmp/seeded/$id; mkdir -p /tmp/seeded/$id
cd $wt
demo=$(git status --short | grep '^??' | awk '{print $2}' | grep '_test\.go$' | head -1)
[ -n "$demo" ] || { echo "no demonstration file"; exit 2; }
git diff > /tmp/seeded/$id/patch.diff
[ -s /tmp/seeded/$id/patch.diff ] || { echo "no source change"; exit 2; }
# seedverify.sh selects the demonstration with -run 'Seed|seed|Verif'
grep -q 'func Test[A-Za-z0-9_]*\(Seed\|Verif\)' $demo || sed -i 's/func Test/func TestSeed/' $demo
cp $demo /tmp/seeded/$id/
echo $demo > /tmp/seeded/$id/demo_path.txt
cd /
git -C /repo worktree remove --force $wt
echo "staged $id: $demo, $(wc -l < /tmp/seeded/$id/patch.diff) patch lines"
