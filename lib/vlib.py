"""Shared plumbing for /verif/check: harness build, TLC runs, trace validation, verdicts, evidence.

Verdict rules (DESIGN.md section 5):
  exit 0  property held on everything explored (KNOWN-FINDING lines allowed)
  exit 1  VIOLATION property=<id> replay=<path>  (a judged predicate failed on REAL-code observations
          and the failure signature is not in known_findings.json)
  exit 2  infrastructure trouble (build failure, TLC error/timeout, missing verdict, vacuous run)
"""
import fcntl
import json
import os
import re
import shutil
import subprocess
import sys
import tempfile
import time

VERIF = os.path.dirname(os.path.dirname(os.path.abspath(__file__)))
REPO = os.environ.get("VERIF_REPO", "/repo")
SPEC = os.path.join(VERIF, "spec")
HARNESS = os.path.join(VERIF, "harness")
EVID = os.path.join(VERIF, "evidence")
REPLAYS = os.path.join(VERIF, "replays")
KNOWN = os.path.join(VERIF, "known_findings.json")

GOENV = dict(GOFLAGS="-mod=mod", GOPROXY="off", GOSUMDB="off", GOTOOLCHAIN="local")


class Infra(Exception):
    """Infrastructure trouble: exit 2, never a violation."""


class Crash(Exception):
    """The harness process was killed by a panic inside the repository's code: a violation (recorded), not infrastructure."""


class Run:
    def __init__(self, pid, tier, seed):
        self.pid = pid
        self.tier = tier
        self.seed = seed
        self.t0 = time.time()
        self.scratch = tempfile.mkdtemp(prefix="verif-%s-" % pid)
        self.violations = []      # dicts {why, replay}
        self.known_hits = {}      # signature -> count
        self.cov = dict(states=0, transitions=0, traces_validated_against_impl=0, samples=[],
                        evaluations=0, distinct_nontrivial=0, rule="", exhaustive=False,
                        tlc_runs=[], drivers=[], spec_drift=0)
        self.assumptions = []
        self.binary = None
        self.level = "model_checking"

    # ---------------------------------------------------------------- harness
    def build(self):
        """Build the Go harness from /repo's CURRENT working tree, hooks on (-tags verif)."""
        if self.binary:
            return self.binary
        env = dict(os.environ, **GOENV)
        os.makedirs(os.path.join(VERIF, ".build"), exist_ok=True)
        lock = open(os.path.join(VERIF, ".build", "lock"), "w")
        fcntl.flock(lock, fcntl.LOCK_EX)
        try:
            gomod = open(os.path.join(REPO, "go.mod")).read().split("\n", 1)[1]
            body = ("module verif/harness\n" + gomod +
                    "\nrequire github.com/streamingfast/substreams v0.0.0\n"
                    "replace github.com/streamingfast/substreams => %s\n" % REPO)
            p = os.path.join(HARNESS, "go.mod")
            if not os.path.exists(p) or open(p).read() != body:
                open(p, "w").write(body)
            shutil.copy(os.path.join(REPO, "go.sum"), os.path.join(HARNESS, "go.sum"))
            out = os.path.join(self.scratch, "vharness")
            r = subprocess.run(["go", "build", "-tags", "verif", "-o", out, "."], cwd=HARNESS, env=env,
                               stdout=subprocess.PIPE, stderr=subprocess.STDOUT, text=True)
            if r.returncode != 0:
                raise Infra("harness does not build against the current tree:\n" + r.stdout[-4000:])
        finally:
            fcntl.flock(lock, fcntl.LOCK_UN)
            lock.close()
        self.binary = out
        return out

    def harness(self, driver, out, extra=(), timeout=1800, env=None, allow_empty=False):
        """Run one harness driver; returns number of records written."""
        b = self.build()
        cmd = [b, driver, "-seed", str(self.seed), "-tier", self.tier, "-out", out] + list(extra)
        e = dict(os.environ, **GOENV)
        e["SUBSTREAMS_WASM_RUNTIME"] = "verifvm"
        if env:
            e.update(env)
        t = time.time()
        try:
            r = subprocess.run(cmd, stdout=subprocess.PIPE, stderr=subprocess.PIPE, text=True, timeout=timeout, env=e,
                               cwd=self.scratch)
        except subprocess.TimeoutExpired:
            raise Infra("harness driver %s timed out after %ds" % (driver, timeout))
        if r.returncode != 0:
            # the harness process died. When it was killed by a Go panic raised INSIDE the repository's code (a goroutine of
            # the scheduler, the squasher, a store...) that is real-code behaviour, not infrastructure: no request may crash
            # the process. Anything else (harness bug, OOM, signal) stays exit 2.
            m = re.search(r"^panic: (.*)$", r.stderr, re.M)
            frames = re.findall(r"^\s+(%s/[^\s:]+:\d+)" % re.escape(REPO), r.stderr, re.M)
            if m and frames and not re.search(r"^\s+%s/" % re.escape(HARNESS), r.stderr.split("goroutine", 2)[1] if "goroutine" in r.stderr else "", re.M):
                sig = "%s:process_crashed_by_panic_in_repository_code" % self.pid
                os.makedirs(REPLAYS, exist_ok=True)
                path = os.path.join(REPLAYS, "%s-%s-seed%d-crash.json" % (self.pid, driver, self.seed))
                json.dump({"property": self.pid, "driver": driver, "why": [sig], "unknown": [sig], "seed": self.seed, "tier": self.tier,
                           "args": list(extra), "panic": m.group(1), "frames": frames[:12], "stderr_tail": r.stderr[-6000:]},
                          open(path, "w"), indent=1)
                if sig not in [v["why"][0] for v in self.violations]:
                    self.violations.append({"why": [sig, m.group(1)[:160]], "replay": path, "key": (sig,)})
                raise Crash(sig)
            raise Infra("harness driver %s failed (rc=%d):\n%s\n%s" % (driver, r.returncode, r.stdout[-2000:], r.stderr[-4000:]))
        try:
            info = json.loads(r.stdout.strip().splitlines()[-1])
        except Exception:
            raise Infra("harness driver %s printed no summary: %s" % (driver, r.stdout[-500:]))
        info["wall_s"] = round(time.time() - t, 2)
        self.cov["drivers"].append(info)
        if info.get("records", 0) == 0 and not allow_empty:
            raise Infra("dead driver: %s produced no records" % driver)
        return info

    def repo_test_traces(self, pkg, outdir, run_filter=None, timeout=900):
        """Run the repository's OWN tests of one package with the hooks on (-tags verif) so that every scheduler they build
        writes its trace (test/verif_trace_test.go); returns the concatenated ndjson path."""
        env = dict(os.environ, **GOENV)
        env["VERIF_SCHED_TRACE"] = outdir
        env["VERIF_SKIP_RAMPUP"] = "1"
        cmd = ["go", "test", "-tags", "verif", "-vet=off", "-count=1", pkg]
        if run_filter:
            cmd += ["-run", run_filter]
        t = time.time()
        try:
            r = subprocess.run(cmd, cwd=REPO, env=env, stdout=subprocess.PIPE, stderr=subprocess.STDOUT, text=True, timeout=timeout)
        except subprocess.TimeoutExpired:
            raise Infra("repository tests %s timed out" % pkg)
        files = sorted(f for f in os.listdir(outdir) if f.endswith(".ndjson")) if os.path.isdir(outdir) else []
        if not files:
            raise Infra("repository tests %s wrote no scheduler trace (rc=%d):\n%s" % (pkg, r.returncode, r.stdout[-2000:]))
        out = os.path.join(outdir, "all-schedulers.ndjson.trace")
        n = 0
        with open(out, "w") as o:
            for f in files:
                with open(os.path.join(outdir, f)) as fh:
                    for line in fh:
                        o.write(line)
                        n += 1
        self.cov["drivers"].append(dict(driver="repository tests %s (-tags verif)" % pkg, schedulers=len(files), records=n,
                                        tests_passed=(r.returncode == 0), wall_s=round(time.time() - t, 2)))
        return out, (r.returncode == 0), r.stdout[-1500:]

    def harness_sharded(self, driver, out, extra=(), shards=8, timeout=3000, env=None):
        """Run a driver whose cases are independent per index (system driver: one random stream per scenario) as `shards`
        parallel processes (-shard k/N) and concatenate their traces."""
        from concurrent.futures import ThreadPoolExecutor
        self.build()
        parts = ["%s.part%d" % (out, k) for k in range(shards)]
        with ThreadPoolExecutor(max_workers=shards) as ex:
            infos = list(ex.map(lambda k: self.harness(driver, parts[k], extra=list(extra) + ["-shard", "%d/%d" % (k, shards)],
                                                       timeout=timeout, env=env, allow_empty=True), range(shards)))
        with open(out, "w") as o:
            for p in parts:
                with open(p) as f:
                    shutil.copyfileobj(f, o)
                os.remove(p)
        info = dict(driver=driver, records=sum(i.get("records", 0) for i in infos),
                    distinct_nontrivial=sum(i.get("distinct_nontrivial", 0) for i in infos), shards=shards,
                    wall_s=max(i.get("wall_s", 0) for i in infos))
        self.cov["drivers"] = [d for d in self.cov["drivers"] if d not in infos] + [info]
        if info["records"] == 0:
            raise Infra("dead driver: %s produced no records" % driver)
        return info

    # ---------------------------------------------------------------- TLC
    def tlc(self, module, cfg, env=None, workers=None, timeout=1200, extra=(), xss=None, name=None, heap=None,
            expect_violation=False):
        """Run TLC on spec/<module>.tla with spec/<cfg> in a scratch copy. Returns dict(out, generated, distinct, depth)."""
        d = tempfile.mkdtemp(prefix="tlc-", dir=self.scratch)
        for f in os.listdir(SPEC):
            if f.endswith(".tla") or f.endswith(".cfg"):
                shutil.copy(os.path.join(SPEC, f), d)
        e = dict(os.environ)
        os.makedirs(os.path.join(d, "jtmp"), exist_ok=True)
        jopts = ["-Djava.io.tmpdir=" + os.path.join(d, "jtmp")]   # TLC litters java.io.tmpdir with tlc-* directories
        if xss:
            jopts.append("-Xss%s" % xss)
        jopts.append("-Xmx%s" % (heap or "8g"))   # (the tlc wrapper's default is 25% of the RAM per JVM; checks may run side by side)
        if jopts:
            e["JAVA_TOOL_OPTIONS"] = " ".join(jopts)
        if env:
            e.update(env)
        if workers is None:
            workers = "auto"
        cmd = ["timeout", str(timeout), "tlc", "-workers", str(workers), "-metadir", os.path.join(d, "meta"),
               "-config", cfg] + list(extra) + [module + ".tla"]
        t = time.time()
        r = subprocess.run(cmd, cwd=d, env=e, stdout=subprocess.PIPE, stderr=subprocess.STDOUT, text=True)
        out = r.stdout
        res = dict(module=module, cfg=cfg, rc=r.returncode, wall_s=round(time.time() - t, 2), out=out, dir=d)
        m = re.search(r"(\d+) states generated, (\d+) distinct states found", out)
        if m:
            res["generated"], res["distinct"] = int(m.group(1)), int(m.group(2))
        m = re.search(r"depth of the complete state graph search is (\d+)", out)
        if m:
            res["depth"] = int(m.group(1))
        res["completed"] = "Model checking completed. No error has been found." in out
        res["invariant_violated"] = bool(re.search(r"Invariant \S+ is violated|Temporal properties were violated|Action property \S+ is violated", out))
        if r.returncode == 124:
            raise Infra("TLC timed out after %ds on %s/%s" % (timeout, module, cfg))
        if not res["completed"] and not (expect_violation and res["invariant_violated"]):
            if res["invariant_violated"]:
                return res
            raise Infra("TLC failed on %s/%s (rc=%d):\n%s" % (module, cfg, r.returncode, out[-3000:]))
        self.cov["tlc_runs"].append({k: res.get(k) for k in ("module", "cfg", "generated", "distinct", "depth", "wall_s")})
        return res

    def simulate(self, module, cfg, seconds=180, depth=24, workers=4, seed=None):
        """TLC random simulation (-simulate) of a configuration too large for exhaustive search, for a fixed wall-clock budget:
        every invariant is evaluated in every state of every generated behaviour. The budget running out is the normal end;
        a violated invariant is a design-level counterexample (infrastructure error here: it must be reproduced on real code)."""
        d = tempfile.mkdtemp(prefix="sim-", dir=self.scratch)
        for f in os.listdir(SPEC):
            if f.endswith(".tla") or f.endswith(".cfg"):
                shutil.copy(os.path.join(SPEC, f), d)
        os.makedirs(os.path.join(d, "jtmp"), exist_ok=True)
        e = dict(os.environ, JAVA_TOOL_OPTIONS="-Djava.io.tmpdir=" + os.path.join(d, "jtmp"))
        cmd = ["timeout", str(seconds), "tlc", "-workers", str(workers), "-simulate", "num=100000000", "-depth", str(depth),
               "-seed", str(seed if seed is not None else self.seed), "-metadir", os.path.join(d, "meta"), "-config", cfg, module + ".tla"]
        t = time.time()
        r = subprocess.run(cmd, cwd=d, env=e, stdout=subprocess.PIPE, stderr=subprocess.STDOUT, text=True)
        out = r.stdout
        if re.search(r"Invariant \S+ is violated|Error:", out):
            raise Infra("simulation of %s/%s found a design-level counterexample:\n%s" % (module, cfg, out[-3000:]))
        m = re.findall(r"Progress: (\d+) states checked, (\d+) traces generated", out)
        states, traces = (int(m[-1][0]), int(m[-1][1])) if m else (0, 0)
        if traces == 0:
            raise Infra("simulation of %s/%s generated no behaviour:\n%s" % (module, cfg, out[-1500:]))
        self.cov["tlc_runs"].append(dict(module=module, cfg=cfg, mode="simulate", states_checked=states, traces=traces, depth=depth,
                                         wall_s=round(time.time() - t, 2)))
        self.cov["states"] += states
        shutil.rmtree(d, ignore_errors=True)
        return dict(states=states, traces=traces)

    def apalache(self, module, cinit, inv, expect_error=False, timeout=600):
        """Apalache (symbolic, SMT): check `inv` in the initial states of spec/<module>.tla under constant initialiser `cinit`
        (--length=0). Returns True when the outcome is the expected one; anything else is infrastructure trouble."""
        d = tempfile.mkdtemp(prefix="apa-", dir=self.scratch)
        for f in os.listdir(SPEC):
            if f.endswith(".tla"):
                shutil.copy(os.path.join(SPEC, f), d)
        cmd = ["timeout", str(timeout), "apalache-mc", "check", "--cinit=" + cinit, "--init=Init", "--next=Next", "--inv=" + inv,
               "--length=0", "--out-dir=" + os.path.join(d, "out"), module + ".tla"]
        t = time.time()
        r = subprocess.run(cmd, cwd=d, stdout=subprocess.PIPE, stderr=subprocess.STDOUT, text=True)
        ok = "The outcome is: NoError" in r.stdout
        err = "Checker has found an error" in r.stdout
        self.cov.setdefault("apalache_runs", []).append(dict(module=module, cinit=cinit, inv=inv, outcome="NoError" if ok else ("Error" if err else "?"),
                                                             expected="Error" if expect_error else "NoError", wall_s=round(time.time() - t, 2)))
        shutil.rmtree(d, ignore_errors=True)
        if not ok and not err:
            raise Infra("apalache failed on %s %s %s:\n%s" % (module, cinit, inv, r.stdout[-1500:]))
        if ok == expect_error:
            raise Infra("apalache: %s under %s is %s, expected the opposite (the symbolic facts no longer match the reference operators)"
                        % (inv, cinit, "proved" if ok else "refuted"))
        return True

    def model_check(self, module, cfg, **kw):
        """Design-level exhaustive run: counts go to evidence; an invariant violation at design level is
        NOT a verdict by itself (rule 1) -> infra error unless caller handles it."""
        res = self.tlc(module, cfg, **kw)
        if not res["completed"]:
            raise Infra("design-level model %s/%s violates its own property:\n%s" % (module, cfg, res["out"][-3000:]))
        self.cov["states"] += res.get("distinct", 0)
        self.cov["transitions"] += res.get("generated", 0)
        return res

    def validate(self, module, trace, cfg=None, xss="256m", timeout=1800, env=None, heap=None):
        """Trace validation: TLC steps through the ndjson trace, judges every record, writes a verdict file."""
        out = trace + ".verdict.json"
        if os.path.exists(out):
            os.remove(out)
        e = {"VERIF_TRACE": trace, "VERIF_OUT": out}
        if env:
            e.update(env)
        # (an explicit heap: the tlc wrapper's default is 25% of the RAM per JVM, too much for 12-16 parallel shards)
        res = self.tlc(module, cfg or module + ".cfg", env=e, workers=1, timeout=timeout, xss=xss, heap=heap or "3g")
        if not res["completed"] or not os.path.exists(out):
            raise Infra("trace validation %s did not complete:\n%s" % (module, res["out"][-3000:]))
        v = json.load(open(out))
        nrec = sum(1 for _ in open(trace))
        if v.get("n") != nrec:
            raise Infra("trace validation %s consumed %s of %d records" % (module, v.get("n"), nrec))
        self.cov["traces_validated_against_impl"] += nrec
        self.cov["evaluations"] += nrec
        return v

    def validate_sharded(self, module, trace, boundary='"ev":"reset"', shards=14, **kw):
        """Split a trace made of independent chains (each starting with a `boundary` record) into shards and
        validate them with parallel TLC processes; verdict indices are mapped back to the whole trace."""
        from concurrent.futures import ThreadPoolExecutor
        starts = []
        n = 0
        with open(trace) as f:
            for i, line in enumerate(f):
                n += 1
                if boundary in line[:200] or boundary in line:
                    starts.append(i)
        if not starts or starts[0] != 0:
            starts = [0] + starts
        per = max(1, n // shards)
        cuts = [0]
        for st in starts:
            if st - cuts[-1] >= per:
                cuts.append(st)
        cuts.append(n)
        files = []
        with open(trace) as f:
            for k in range(len(cuts) - 1):
                p = "%s.shard%d" % (trace, k)
                with open(p, "w") as o:
                    for _ in range(cuts[k + 1] - cuts[k]):
                        o.write(f.readline())
                files.append((p, cuts[k]))
        with ThreadPoolExecutor(max_workers=min(16, len(files))) as ex:
            res = list(ex.map(lambda pf: self.validate(module, pf[0], **kw), files))
        bad, drift = [], []
        for (p, off), v in zip(files, res):
            bad += [dict(i=b["i"] + off, why=b["why"]) for b in v.get("bad", [])]
            for d in v.get("drift", []):
                if isinstance(d, dict):
                    d = dict(d); d["i"] += off
                else:
                    d += off
                drift.append(d)
            os.remove(p)
        return dict(n=n, bad=bad, drift=drift)

    # ---------------------------------------------------------------- verdicts
    def judge(self, verdict, trace, label="", only=None):
        """Turn the TLA+ verdict of one trace into violations / known findings. `bad` entries are
        [i |-> record index (1-based), why |-> seq of signature strings computed by the trace spec]."""
        bad = verdict.get("bad", [])
        if only:   # a shared trace serves several properties: keep the signatures that decide this one
            bad = [dict(i=b["i"], why=[w for w in b["why"] if w.startswith(only)]) for b in bad]
            bad = [b for b in bad if b["why"]]
        drift = verdict.get("drift", [])
        self.cov["spec_drift"] += len(drift)
        if drift:
            self.cov.setdefault("spec_drift_examples", [])
            idx = [(d["i"] if isinstance(d, dict) else d) for d in drift[:3]]
            why = [(d.get("why") if isinstance(d, dict) else None) for d in drift[:3]]
            lines = _lines(trace, set(idx))
            for i, w in zip(idx, why):
                self.cov["spec_drift_examples"].append({"trace": label, "why": w, "record": _clip(lines.get(i))})
        if not bad:
            return
        known = load_known(self.pid)
        lines = _lines(trace, set(b["i"] for b in bad))
        for b in bad:
            why = list(b["why"])
            unknown = [w for w in why if w not in known]
            if not unknown:
                for w in why:
                    self.known_hits[w] = self.known_hits.get(w, 0) + 1
                continue
            key = tuple(sorted(unknown))
            if key in [v.get("key") for v in self.violations]:
                continue
            if len(self.violations) < 8:
                os.makedirs(REPLAYS, exist_ok=True)
                path = os.path.join(REPLAYS, "%s-%s-seed%d-%d.json" % (self.pid, label or "trace", self.seed, b["i"]))
                json.dump({"property": self.pid, "driver": label, "why": why, "unknown": unknown, "record_index": b["i"],
                           "record": lines.get(b["i"]), "seed": self.seed, "tier": self.tier,
                           "scenario": _scenario_of(trace, b["i"]),
                           "how_to_replay": "./check %s --replay <this file>  (re-runs the real code with this seed and tier; for the "
                                            "system driver only the failing scenario: vharness system -x <kind> -only <scenario>)" % self.pid},
                          open(path, "w"), indent=1)
                self.violations.append({"why": why, "replay": path, "key": key})

    # ---------------------------------------------------------------- binding self-test
    def selftest(self, module, trace, name, pick, mutate=None, start=None, span=400, drop=False, **kw):
        """Demonstrate that the trace specification is bound to what the harness logs: take the first record accepted by
        `pick`, corrupt it with `mutate` (or drop it), and require TLC to report a signature or drift on the mutated trace.
        `start(record)` marks records a window may begin at (e.g. the prog record of a scenario); the window is the last such
        record before the picked one .. +span records. A mutated trace that is still accepted = vacuous binding = exit 2."""
        lines = open(trace).read().splitlines()
        idx = None
        for i, l in enumerate(lines):
            try:
                r = json.loads(l)
            except Exception:
                continue
            if pick(r):
                idx = i
                break
        if idx is None:
            self.cov.setdefault("binding_selftests", []).append({"name": name, "skipped": "no record to mutate in this trace"})
            return
        a = idx
        if start is not None:
            while a > 0:
                try:
                    if start(json.loads(lines[a])):
                        break
                except Exception:
                    pass
                a -= 1
        b = min(len(lines), idx + span)
        if start is not None:      # stop at the next window start
            for j in range(idx + 1, b):
                try:
                    if start(json.loads(lines[j])):
                        b = j
                        break
                except Exception:
                    pass
        win = lines[a:b]
        rec = json.loads(lines[idx])
        if drop:
            mutated = win[:idx - a] + win[idx - a + 1:]
        else:
            mutate(rec)
            mutated = win[:idx - a] + [json.dumps(rec, separators=(",", ":"))] + win[idx - a + 1:]
        base = trace + ".selftest-" + name
        open(base + ".orig", "w").write("\n".join(win) + "\n")
        open(base + ".mut", "w").write("\n".join(mutated) + "\n")
        v0 = self.validate(module, base + ".orig", **kw)
        v1 = self.validate(module, base + ".mut", **kw)
        # the self-test traces are not part of the run's coverage
        self.cov["traces_validated_against_impl"] -= v0.get("n", 0) + v1.get("n", 0)
        n0 = len(v0.get("bad", [])) + len(v0.get("drift", []))
        n1 = len(v1.get("bad", [])) + len(v1.get("drift", []))
        res = {"name": name, "module": module, "window_records": len(win), "findings_original": n0, "findings_mutated": n1,
               "mutation": "dropped record" if drop else "corrupted one logged field",
               "reported": sorted({w for x in v1.get("bad", []) for w in x["why"]} |
                                  {w for x in v1.get("drift", []) if isinstance(x, dict) for w in x.get("why", [])})[:6]}
        self.cov.setdefault("binding_selftests", []).append(res)
        for f in (base + ".orig", base + ".mut"):
            try:
                os.remove(f)
            except OSError:
                pass
        if n1 <= n0:
            raise Infra("binding self-test %s: the mutated trace is judged like the original (%d findings): the trace "
                        "specification does not constrain that field" % (name, n1))

    def sample(self, trace, n=2, pick=None):
        """Copy a few actual records into coverage.samples."""
        with open(trace) as f:
            for i, line in enumerate(f):
                if pick is not None and i not in pick:
                    continue
                if pick is None and i >= n:
                    break
                try:
                    self.cov["samples"].append(_clip(json.loads(line)))
                except Exception:
                    pass

    # ---------------------------------------------------------------- finish
    def finish(self):
        cov = self.cov
        if getattr(self, "pending_infra", None) and not self.violations:
            raise Infra(self.pending_infra)
        for k, v in sorted(self.known_hits.items()):
            print("KNOWN-FINDING: property=%s %s (%d cases this run)" % (self.pid, k, v))
        cov["known_finding_hits"] = self.known_hits
        ev = dict(property_id=self.pid, tier=self.tier, seed=self.seed, level=self.level, coverage=cov,
                  assumptions=self.assumptions, wall_s=round(time.time() - self.t0, 2), violations=len(self.violations))
        write_evidence(self.pid, ev)
        shutil.rmtree(self.scratch, ignore_errors=True)
        if self.violations:
            seen = set()
            for v in self.violations:
                if v["replay"] in seen:
                    continue
                seen.add(v["replay"])
                print("VIOLATION property=%s replay=%s" % (self.pid, v["replay"]))
                print("  why: %s" % ",".join(v["why"]))
            return 1
        print("OK property=%s tier=%s seed=%d states=%d transitions=%d traces=%d wall=%.1fs" % (
            self.pid, self.tier, self.seed, cov["states"], cov["transitions"], cov["traces_validated_against_impl"],
            time.time() - self.t0))
        return 0


def _scenario_of(trace, i):
    """Scenario index of the system driver: the "scenario" field of the last prog record before line i (None elsewhere)."""
    sc = None
    try:
        with open(trace) as f:
            for k, line in enumerate(f, 1):
                if k > i:
                    break
                if line.startswith('{"ev":"prog"') or '"ev":"prog"' in line[:200]:
                    try:
                        sc = json.loads(line).get("scenario")
                    except Exception:
                        pass
    except Exception:
        pass
    return sc


def _lines(path, wanted):
    out = {}
    if not wanted:
        return out
    with open(path) as f:
        for i, line in enumerate(f, 1):
            if i in wanted:
                try:
                    out[i] = json.loads(line)
                except Exception:
                    out[i] = line
    return out


def _clip(o, lim=1500):
    s = json.dumps(o)
    if len(s) <= lim:
        return o
    return {"clipped": s[:lim]}


def load_known(pid):
    """Signatures of OPEN known findings for this property (fixed entries suppress nothing)."""
    if not os.path.exists(KNOWN):
        return set()
    k = json.load(open(KNOWN))
    return set(e["signature"] for e in k.get("findings", []) if e["property"] == pid and e.get("status") == "open")


def write_evidence(pid, ev):
    os.makedirs(EVID, exist_ok=True)
    tmp = os.path.join(EVID, ".%s.json.tmp" % pid)
    json.dump(ev, open(tmp, "w"), indent=1, sort_keys=True)
    os.replace(tmp, os.path.join(EVID, "%s.json" % pid))


def write_infra_evidence(pid, tier, seed, msg, t0):
    ev = dict(property_id=pid, tier=tier, seed=seed, level="other",
              coverage=dict(explanation="check did not complete (infrastructure): " + msg[:1500], evaluations=0,
                            distinct_nontrivial=0),
              wall_s=round(time.time() - t0, 2), violations=0)
    write_evidence(pid, ev)
