#!/bin/bash
# seedverify.sh <seed-id> : confirm a seeded change in a scratch worktree of /repo HEAD:
#  builds, existing suite passes, demo fails with the change and passes without. Prints a JSON summary line.
set -u
id=$1
src=${2:-/tmp/seeded/$id}
[ -d "$src" ] || src=/verif/seeded/$id
wt=/tmp/wt-verify-$id
export GOFLAGS=-mod=mod GOPROXY=off GOSUMDB=off GOTOOLCHAIN=local
git -C /repo worktree remove --force $wt >/dev/null 2>&1
git -C /repo worktree add -q --detach $wt HEAD || exit 2
cd $wt
apply_ok=1
git apply --3way $src/patch.diff >/dev/null 2>&1 || git apply $src/patch.diff >/dev/null 2>&1 || apply_ok=0
git reset -q >/dev/null 2>&1
build_ok=0; suite_ok=0; demo_fail_with=0; demo_pass_without=0
demo_rel=${DEMO_REL:-$(grep -o '[a-zA-Z0-9_/.-]*verif_seed_demo[a-zA-Z0-9_]*\.go' $src/demo_path.txt | grep -v '^/' | head -1)}
[ -z "$demo_rel" ] && demo_rel=$(grep -o '[a-zA-Z0-9_/.-]*_test\.go' $src/demo_path.txt | head -1)
demo_file=${DEMO_FILE:-$(ls $src/*_test.go 2>/dev/null | head -1)}
case "$demo_rel" in */*) ;; *) demo_rel=$(grep -o "[a-zA-Z0-9_/.-]*/" $src/demo_path.txt | grep -v "^/" | head -1)$demo_rel;; esac
pkg=./$(dirname "$demo_rel")/
if [ $apply_ok = 1 ]; then
  go build ./... >/dev/null 2>&1 && build_ok=1
  fails=$(go test -vet=off -count=1 -timeout 25m ./... 2>&1 | grep -E '^(--- FAIL|FAIL|panic)' | grep -v 'TestBasicInfo\|TestExtendedInfo\|substreams/info\|^FAIL$' | head -5)
  [ -z "$fails" ] && suite_ok=1
  cp $demo_file $wt/$demo_rel
  go test -vet=off -count=1 -run 'Seed|seed|Verif' $pkg >/tmp/seedverify-$id.with.log 2>&1 || demo_fail_with=1
  git apply -R $src/patch.diff >/dev/null 2>&1 || git checkout -q -- . 
  git diff --quiet -- . ':!'"$demo_rel" 2>/dev/null
  go test -vet=off -count=1 -run 'Seed|seed|Verif' $pkg >/tmp/seedverify-$id.without.log 2>&1 && demo_pass_without=1
fi
cd /
git -C /repo worktree remove --force $wt >/dev/null 2>&1
echo "{\"id\":\"$id\",\"apply\":$apply_ok,\"build\":$build_ok,\"suite\":$suite_ok,\"demo_fails_with\":$demo_fail_with,\"demo_passes_without\":$demo_pass_without,\"demo\":\"$demo_rel\",\"suite_fails\":\"$(echo $fails | tr '"' "'" | head -c 200)\"}"
