#!/bin/bash
# seedrun2.sh <seed-id> <property> [tier]: like seedrun.sh but WITHOUT touching /repo: the seeded change is applied in a scratch
# worktree of /repo's HEAD and the check runs against it (VERIF_REPO). For use while other checks are running against /repo.
set -u
id=$1; prop=$2; tier=${3:-quick}
src=/verif/seeded/$id; [ -d $src ] || src=/tmp/seeded/$id
wt=/tmp/wt-seedrun-$id
git -C /repo worktree remove --force $wt >/dev/null 2>&1
git -C /repo worktree add -q --detach $wt HEAD || exit 2
trap 'git -C /repo worktree remove --force '$wt' >/dev/null 2>&1' EXIT
cd $wt
if ! git apply $src/patch.diff 2>/dev/null; then
  git apply --3way $src/patch.diff >/dev/null 2>&1
  if [ -n "$(git diff --name-only --diff-filter=U)" ] || git diff --quiet HEAD; then echo "patch does not apply"; exit 2; fi
fi
cd /verif
out=$(VERIF_REPO=$wt VERIF_SEED=${VERIF_SEED:-1} ./check $prop --tier $tier 2>&1); rc=$?
echo "$out" | tail -6
echo "SEEDRUN id=$id property=$prop tier=$tier rc=$rc"
