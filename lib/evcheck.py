#!/usr/bin/env python3
"""evcheck.py: every /verif/evidence/<id>.json must come from a completed run (level = the level claimed in MANIFEST.json,
no infrastructure explanation, 0 violations). Run before committing evidence."""
import glob, json, os, sys
V = os.path.dirname(os.path.dirname(os.path.abspath(__file__)))
m = {c["property_id"]: c["level_claimed"]["category"] for c in json.load(open(V + "/MANIFEST.json"))["checks"]}
bad = 0
for pid, lvl in sorted(m.items()):
    f = V + "/evidence/%s.json" % pid
    if not os.path.exists(f):
        print("MISSING", pid); bad += 1; continue
    e = json.load(open(f))
    if e.get("level") != lvl or e.get("violations", 0) != 0 or "did not complete" in str(e["coverage"].get("explanation", "")):
        print("STALE", pid, e.get("level"), e.get("tier"), str(e["coverage"].get("explanation", ""))[:80]); bad += 1
print("evidence ok" if not bad else "%d evidence files need a fresh successful run" % bad)
sys.exit(1 if bad else 0)
