-------------------------------- MODULE Sched --------------------------------
(* The tier1 segment scheduler: orchestrator/scheduler/scheduler.go (Update), orchestrator/stage   *)
(* (unit matrix, NextJob, shadowing, dependenciesCompleted, TryMerge / MergeCompleted,              *)
(* MoveSegmentCompletedForward, FetchStoresState), orchestrator/work/workerpool.go, the exec-out    *)
(* walker flags, and the event loop's semantics (every command runs in its own goroutine, messages  *)
(* are delivered in any order).  Transcribed action by action: one Deliver action per case of       *)
(* Scheduler.Update, one Exec action per command with an effect on files.                           *)
(*                                                                                                   *)
(* Unit states use the letters of Stages.StatesString():                                             *)
(*   "." Pending  "P" PartialPresent  "S" Scheduled  "M" Merging  "Z" Shadowed  "C" Completed  "N" NoOp *)
(* Stages and segments are 0-based as in the code.  cfg (constant along a behaviour) holds:          *)
(*   kinds : Seq({"S","M"}) (index stage+1), first/last : per-stage segmenter bounds (index stage+1), *)
(*   gfirst, glast (global segmenter), offset, hasStores, storeFirst, storeLast, storeEmpty,          *)
(*   hasWalker, walkerLast (walker segments walkerFirst..walkerLast), outputIsIndex, workers          *)
EXTENDS Integers, Sequences, FiniteSets, TLC

VARIABLES cfg,
          st,             \* st[seg][stage+1] for seg \in cfg.offset..cfg.glast  (unallocated segments read as ".")
          segDone,        \* segDone[stage+1] = Stage.segmentCompleted
          shadowable,     \* Stages.shadowableSegment
          busy,           \* number of workers in state Working
          walkerSeg, walkerWorking, outDone, storesDone,
          invalid         \* an invalid transition / panic was reached ("" = none)

schedVars == <<cfg, st, segDone, shadowable, busy, walkerSeg, walkerWorking, outDone, storesDone, invalid>>

NStages == Len(cfg.kinds)
Stages == 0..(NStages - 1)
LastStage == NStages - 1
Kind(s) == cfg.kinds[s + 1]
First(s) == cfg.first[s + 1]
Last(s) == cfg.last[s + 1]
Segs == cfg.offset..cfg.glast

\* Stages.getState
Get(m, seg, stage) ==
  IF seg > cfg.glast THEN "."
  ELSE IF seg < cfg.offset \/ seg < First(stage) THEN "N"
  ELSE m[seg][stage + 1]
Set(m, seg, stage, v) == [m EXCEPT ![seg][stage + 1] = v]

\* transition(u, to, allowed...): result matrix, or "invalid"
Trans(m, seg, stage, to, allowed) ==
  IF seg \notin Segs THEN [m |-> m, bad |-> "transition outside the matrix"]
  ELSE IF m[seg][stage + 1] \in allowed THEN [m |-> Set(m, seg, stage, to), bad |-> ""]
  ELSE [m |-> m, bad |-> "invalid transition from " \o m[seg][stage + 1] \o " to " \o to]

PrevComplete(m, seg, stage) == Get(m, seg - 1, stage) \in {"C", "N"}

AllStoresCompleted(m) ==
  \/ ~cfg.hasStores
  \/ cfg.storeEmpty
  \/ \A s \in Stages : Kind(s) = "S" => \A seg \in cfg.storeFirst..cfg.storeLast : Get(m, seg, s) \in {"C", "N"}

LastStageCompleted(m) == \A seg \in cfg.mapFirst..cfg.mapLast : Get(m, seg, LastStage) \in {"C", "P", "N"}

\* MoveSegmentCompletedForward (note: the loop stops BEFORE the last index)
RECURSIVE MoveFwd(_, _, _)
MoveFwd(m, stage, cur) ==
  IF cur + 1 < Last(stage) /\ Get(m, cur + 1, stage) = "C" THEN MoveFwd(m, stage, cur + 1) ELSE cur

Shadowable(seg) == NStages >= 2 /\ seg - shadowable <= NStages - 1

\* markShadowedUnits(seg): returns [m, some]
MarkShadowed(m, seg) ==
  IF ~Shadowable(seg) THEN [m |-> m, some |-> FALSE]
  ELSE LET rel == seg - shadowable
           RECURSIVE Go(_, _, _)
           Go(mm, stage, some) ==
             IF stage < rel \/ stage < 0 THEN [m |-> mm, some |-> some]
             ELSE LET cur == Get(mm, seg, stage)  nxt == Get(mm, seg, stage + 1) IN
                  IF cur \in {".", "Z"} /\ nxt \in {".", "S", "Z"} /\ seg \in Segs /\ seg >= First(stage)
                  THEN Go(Set(mm, seg, stage, "Z"), stage - 1, TRUE)
                  ELSE Go(mm, stage - 1, some)
       IN Go(m, LastStage - 1, FALSE)

\* dependenciesCompleted(u)  (candidate repair: every lower stage complete up to the segment start)
DepsCompleted(m, seg, stage) ==
  \/ stage = 0
  \/ /\ \A i \in 0..(stage - 1) : Get(m, seg - 1, i) \in {"C", "N"}
     /\ (seg <= First(stage) \/ \A i \in 0..(stage - 1) : Get(m, seg, i) \in {"C", "N", "Z", "P"})

\* NextJob(): result [m, unit (<<seg, stage>> or <<>>), bad]
NextJob(m0) ==
  LET RECURSIVE SegLoop(_, _)
      RECURSIVE StageLoop(_, _, _, _)
      \* inner loop over stages (from the last one down)
      StageLoop(m, seg, stage, some) ==
        IF stage < 0 THEN [m |-> m, unit |-> <<>>, bad |-> "", next |-> TRUE]
        ELSE IF Get(m, seg, stage) # "." THEN StageLoop(m, seg, stage - 1, some)
        ELSE IF seg < First(stage) THEN StageLoop(m, seg, stage - 1, some)
        ELSE IF seg > Last(stage) THEN [m |-> m, unit |-> <<>>, bad |-> "", next |-> TRUE]      \* break
        ELSE IF ~DepsCompleted(m, seg, stage) THEN StageLoop(m, seg, stage - 1, some)
        ELSE IF some /\ stage = LastStage THEN
             \* schedule the lowest pending stage of the segment instead
             LET pend == {i \in Stages : Get(m, seg, i) = "."}
                 i == CHOOSE x \in pend : \A y \in pend : x <= y
                 t == Trans(m, seg, i, "S", {"."}) IN
             [m |-> t.m, unit |-> <<seg, i>>, bad |-> t.bad, next |-> FALSE]
        ELSE LET t == Trans(m, seg, stage, "S", {"."}) IN [m |-> t.m, unit |-> <<seg, stage>>, bad |-> t.bad, next |-> FALSE]
      SegLoop(m, seg) ==
        IF seg > cfg.glast THEN [m |-> m, unit |-> <<>>, bad |-> ""]
        ELSE LET sh == MarkShadowed(m, seg)
                 r == StageLoop(sh.m, seg, LastStage, sh.some) IN
             IF r.next THEN SegLoop(r.m, seg + 1) ELSE [m |-> r.m, unit |-> r.unit, bad |-> r.bad]
  IN SegLoop(m0, cfg.gfirst)

\* the synchronous part of CmdTryMerge(stage): [m, merge (<<seg, stage>> or <<>>), allDone, bad]
TryMerge(m, sd, stage) ==
  IF AllStoresCompleted(m) THEN [m |-> m, merge |-> <<>>, allDone |-> TRUE, bad |-> ""]
  ELSE IF Kind(stage) # "S" THEN [m |-> m, merge |-> <<>>, allDone |-> FALSE, bad |-> ""]
  ELSE LET seg == sd[stage + 1] + 1 IN
    IF seg > Last(stage) \/ Get(m, seg, stage) # "P" \/ ~PrevComplete(m, seg, stage)
    THEN [m |-> m, merge |-> <<>>, allDone |-> FALSE, bad |-> ""]
    ELSE LET t == Trans(m, seg, stage, "M", {"P"}) IN [m |-> t.m, merge |-> <<seg, stage>>, allDone |-> FALSE, bad |-> t.bad]

\* several TryMerge calls in a row (stages given as a sequence); accumulates merge commands
RECURSIVE TryMerges(_, _, _)
TryMerges(m, sd, stages) ==
  IF stages = <<>> THEN [m |-> m, merges |-> {}, allDone |-> FALSE, bad |-> ""]
  ELSE LET t == TryMerge(m, sd, Head(stages))
           r == TryMerges(t.m, sd, Tail(stages)) IN
       [m |-> r.m, merges |-> (IF t.merge = <<>> THEN {} ELSE {t.merge}) \cup r.merges,
        allDone |-> t.allDone \/ r.allDone, bad |-> IF t.bad # "" THEN t.bad ELSE r.bad]

\* MarkJobSuccess(u): [m, shadowed (sequence of stages, from the highest down), bad]
MarkJobSuccess(m, seg, stage) ==
  LET t == Trans(m, seg, stage, "P", {"S", "."})
      RECURSIVE Go(_, _, _)
      Go(mm, i, acc) ==
        IF i < 0 THEN [m |-> mm, shadowed |-> acc]
        ELSE IF Get(mm, seg, i) = "Z" THEN Go(Set(mm, seg, i, "P"), i - 1, Append(acc, i))
        ELSE Go(mm, i - 1, acc)
      r == IF Shadowable(seg) THEN Go(t.m, stage - 1, <<>>) ELSE [m |-> t.m, shadowed |-> <<>>]
  IN [m |-> r.m, shadowed |-> r.shadowed, bad |-> t.bad]

------------------------------------------------------------------------
(* Scheduler.Update: effect of delivering one message on the scheduler state.                        *)
(* msg = [t |-> type, seg, stage].  Result: the new state and the commands it emits:                 *)
(*   jobs (units to run), merges (units to squash), schedule (CmdScheduleNextJob), download,          *)
(*   allStores (MsgAllStoresCompleted), walkerDone (MsgWalkerCompleted), shutdown (WaitAsyncWork+Quit)*)
\*   download = CmdDownloadSegment (yields MsgDownloadSegment); fetch = CmdDownloadCurrentSegment (reads the output file of
\*   the walker's current segment: MsgFileDownloaded or MsgFileNotPresent)
NoCmds == [jobs |-> {}, merges |-> {}, schedule |-> FALSE, download |-> FALSE, fetch |-> FALSE, allStores |-> FALSE,
           walkerDone |-> FALSE, shutdown |-> FALSE, quitErr |-> FALSE]

ShutdownNow(out, sto, m) ==
  out /\ sto /\ (cfg.hasWalker \/ ~(cfg.outputIsIndex /\ ~LastStageCompleted(m)))

Update(msg) ==
  CASE msg.t = "JobSucceeded" ->
         LET j == MarkJobSuccess(st, msg.seg, msg.stage)
             tm == TryMerges(j.m, segDone, <<msg.stage>> \o j.shadowed) IN
         [m |-> tm.m, sd |-> segDone, busy |-> busy - 1, ww |-> walkerWorking, wseg |-> walkerSeg, out |-> outDone, sto |-> storesDone,
          bad |-> IF busy = 0 THEN "returned worker was already free" ELSE IF j.bad # "" THEN j.bad ELSE tm.bad,
          cmds |-> [NoCmds EXCEPT !.merges = tm.merges, !.allStores = tm.allDone, !.schedule = TRUE, !.download = cfg.hasWalker]]
    [] msg.t = "ScheduleNextJob" ->
         IF busy >= cfg.workers
         THEN [m |-> st, sd |-> segDone, busy |-> busy, ww |-> walkerWorking, wseg |-> walkerSeg, out |-> outDone, sto |-> storesDone, bad |-> "", cmds |-> NoCmds]
         ELSE LET nj == NextJob(st) IN
           IF nj.unit = <<>>
           THEN [m |-> nj.m, sd |-> segDone, busy |-> busy, ww |-> walkerWorking, wseg |-> walkerSeg, out |-> outDone, sto |-> storesDone, bad |-> nj.bad, cmds |-> NoCmds]
           ELSE [m |-> nj.m, sd |-> segDone, busy |-> busy + 1, ww |-> walkerWorking, wseg |-> walkerSeg, out |-> outDone, sto |-> storesDone, bad |-> nj.bad,
                 cmds |-> [NoCmds EXCEPT !.jobs = {nj.unit}, !.schedule = TRUE]]
    [] msg.t = "MergeFinished" ->
         LET t == Trans(st, msg.seg, msg.stage, "C", {".", "M", "S", "Z", "N", "C"})
             sd2 == [segDone EXCEPT ![msg.stage + 1] = MoveFwd(t.m, msg.stage, segDone[msg.stage + 1])]
             tm == TryMerge(t.m, sd2, msg.stage) IN
         [m |-> tm.m, sd |-> sd2, busy |-> busy, ww |-> walkerWorking, wseg |-> walkerSeg, out |-> outDone, sto |-> storesDone,
          bad |-> IF t.bad # "" THEN t.bad ELSE tm.bad,
          cmds |-> [NoCmds EXCEPT !.merges = IF tm.merge = <<>> THEN {} ELSE {tm.merge}, !.allStores = tm.allDone, !.schedule = TRUE]]
    [] msg.t = "AllStoresCompleted" ->
         [m |-> st, sd |-> segDone, busy |-> busy, ww |-> walkerWorking, wseg |-> walkerSeg, out |-> outDone, sto |-> TRUE, bad |-> "",
          cmds |-> [NoCmds EXCEPT !.schedule = TRUE, !.shutdown = ShutdownNow(outDone, TRUE, st)]]
    [] msg.t \in {"JobFailed", "MergeFailed"} ->
         [m |-> st, sd |-> segDone, busy |-> busy, ww |-> walkerWorking, wseg |-> walkerSeg, out |-> outDone, sto |-> storesDone, bad |-> "",
          cmds |-> [NoCmds EXCEPT !.quitErr = TRUE]]
    [] msg.t = "DownloadSegment" ->
         IF ~cfg.hasWalker \/ walkerWorking
         THEN [m |-> st, sd |-> segDone, busy |-> busy, ww |-> walkerWorking, wseg |-> walkerSeg, out |-> outDone, sto |-> storesDone, bad |-> "", cmds |-> NoCmds]
         ELSE [m |-> st, sd |-> segDone, busy |-> busy, ww |-> TRUE, wseg |-> walkerSeg, out |-> outDone, sto |-> storesDone, bad |-> "",
               cmds |-> [NoCmds EXCEPT !.walkerDone = (walkerSeg > cfg.walkerLast), !.fetch = (walkerSeg <= cfg.walkerLast)]]
    [] msg.t = "FileNotPresent" ->
         [m |-> st, sd |-> segDone, busy |-> busy, ww |-> FALSE, wseg |-> walkerSeg, out |-> outDone, sto |-> storesDone, bad |-> "",
          cmds |-> [NoCmds EXCEPT !.download = TRUE]]
    [] msg.t = "FileDownloaded" ->
         [m |-> st, sd |-> segDone, busy |-> busy, ww |-> FALSE, wseg |-> walkerSeg + 1, out |-> outDone, sto |-> storesDone, bad |-> "",
          cmds |-> [NoCmds EXCEPT !.download = TRUE]]
    [] msg.t = "WalkerCompleted" ->
         [m |-> st, sd |-> segDone, busy |-> busy, ww |-> walkerWorking, wseg |-> walkerSeg, out |-> TRUE, sto |-> storesDone, bad |-> "",
          cmds |-> [NoCmds EXCEPT !.shutdown = ShutdownNow(TRUE, storesDone, st)]]
    [] OTHER ->   \* MsgMergeNotReady and anything else: no case in Update
         [m |-> st, sd |-> segDone, busy |-> busy, ww |-> walkerWorking, wseg |-> walkerSeg, out |-> outDone, sto |-> storesDone, bad |-> "", cmds |-> NoCmds]

ApplyUpdate(u) ==
  /\ st' = u.m /\ segDone' = u.sd /\ busy' = u.busy /\ walkerWorking' = u.ww /\ walkerSeg' = u.wseg
  /\ outDone' = u.out /\ storesDone' = u.sto
  /\ invalid' = IF invalid # "" THEN invalid ELSE u.bad
  /\ UNCHANGED <<cfg, shadowable>>

------------------------------------------------------------------------
(* FetchStoresState: initial matrix from the files found (one store module per store stage).        *)
(* files: set of [k \in {"kv","partial","output"}, stage, seg]                                        *)
EmptyMatrix == [seg \in Segs |-> [i \in 1..NStages |-> "."]]

\* initSegmentsOffset: NoOp for the map stage before the first written segment, and for store stages before the first store segment
InitNoOps(m) ==
  [seg \in Segs |-> [i \in 1..NStages |->
     IF Kind(i - 1) = "M" /\ cfg.hasMap /\ seg < cfg.mapFirst THEN "N"
     ELSE IF Kind(i - 1) = "S" /\ cfg.hasStores /\ seg < cfg.storeFirst THEN "N"
     ELSE m[seg][i]]]

FetchState(files) ==
  LET m0 == InitNoOps(EmptyMatrix)
      \* map stage: completed where the output file exists
      m1 == [seg \in Segs |-> [i \in 1..NStages |->
               IF Kind(i - 1) = "M" /\ m0[seg][i] = "." /\ seg >= cfg.mapFirst /\ seg <= cfg.mapLast /\ [k |-> "output", stage |-> i - 1, seg |-> seg] \in files THEN "C"
               ELSE IF Kind(i - 1) = "S" /\ seg >= First(i - 1) /\ seg <= Last(i - 1) /\ m0[seg][i] \in {".", "N"} /\ [k |-> "kv", stage |-> i - 1, seg |-> seg] \in files THEN "C"
               ELSE IF Kind(i - 1) = "S" /\ seg >= First(i - 1) /\ seg <= Last(i - 1) /\ m0[seg][i] = "." /\ [k |-> "partial", stage |-> i - 1, seg |-> seg] \in files THEN "P"
               ELSE m0[seg][i]]]
      sd == [i \in 1..NStages |-> IF Kind(i - 1) = "S" THEN MoveFwd(m1, i - 1, First(i - 1) - 1) ELSE First(i - 1) - 1]
  IN [m |-> m1, sd |-> sd]

\* setShadowableSegment(startSeg)
ShadowableFor(m, startSeg) ==
  IF NStages < 2 THEN cfg.offset
  ELSE LET RECURSIVE Go(_, _)
           Go(seg, cur) ==
             IF seg > startSeg THEN cur
             ELSE IF \A stg \in 0..(NStages - 2) : PrevComplete(m, seg, stg) THEN Go(seg + 1, seg) ELSE cur
       IN Go(cfg.offset + 1, cfg.offset)
==============================================================================
