--------------------------- MODULE TraceSegments ---------------------------
(* Trace validation for C13: every record holds the answers observed from the real *)
(* block.Segmenter / Range.Split / Ranges.Merged; the C13 predicates of Segments.tla *)
(* judge the OBSERVED answers.  Equality with the reference operators is reported   *)
(* separately as drift (it does not decide the property).                           *)
EXTENDS Segments, TLC, Json, IOUtils

Trace == ndJsonDeserialize(IOEnv.VERIF_TRACE)

VARIABLES l, bad, drift
vars == <<l, bad, drift>>

EoiPanic(r) == IF r.eoi_panic # "" THEN <<"panic">> ELSE <<>>

Fails(r) ==
  IF r.panic # "" THEN <<"panic">>
  ELSE IF r.k = "seg" THEN
    LET rs == r.segs  f == r.first  la == r.last IN
    IF ~ (\A j \in DOMAIN rs : IsRange(rs[j])) \/ rs = <<>> THEN <<"tiles", "index_in_range_yields_no_segment">> \o EoiPanic(r) ELSE
      (IF Tiles(r.sz, r.init, r.end, rs) THEN <<>> ELSE <<"tiles">>)
   \o (IF r.count = Len(rs) /\ la - f + 1 = Len(rs) THEN <<>> ELSE <<"count">>)
   \o (IF \A j \in DOMAIN r.ifs : StartIndexOK(r.init + j - 1, r.ifs[j], f, rs) THEN <<>> ELSE <<"index_for_start">>)
   \o (IF \A j \in DOMAIN r.ife : EndIndexOK(r.init + j, r.ife[j], f, rs) THEN <<>> ELSE <<"index_for_end">>)
   \o (IF r.below = <<>> /\ r.above = <<>> /\ r.above2 = <<>> THEN <<>> ELSE <<"out_of_range_index">>)
   \o (IF \A j \in DOMAIN r.eoi : r.eoi[j] <=> (rs[j][2] % r.sz = 0) THEN <<>> ELSE <<"ends_on_interval">>)
   \o EoiPanic(r)
  ELSE IF r.k = "split" THEN
    (IF SplitOK(r.r, r.chunk, r.out) THEN <<>> ELSE <<"split">>)
  ELSE IF r.k = "merged" THEN
    (IF MergedOK(r.in, r.out) THEN <<>> ELSE <<"merged">>)
  ELSE <<"unknown_record">>

Drift(r) ==
  IF r.panic # "" THEN FALSE
  ELSE IF r.k = "seg" THEN r.segs # AllSegs(r.sz, r.init, r.end)
  ELSE IF r.k = "split" THEN r.out # Split(r.r, r.chunk)
  ELSE IF r.k = "merged" THEN r.out # Merged(r.in)
  ELSE FALSE

Init == l = 1 /\ bad = <<>> /\ drift = <<>>
Next ==
  /\ l <= Len(Trace)
  /\ LET r == Trace[l]  f == Fails(r) IN
       /\ bad' = IF f = <<>> THEN bad ELSE Append(bad, [i |-> l, why |-> f])
       /\ drift' = IF Drift(r) THEN Append(drift, l) ELSE drift
  /\ l' = l + 1

Done == l = Len(Trace) + 1
WriteVerdict ==
  Done => JsonSerialize(IOEnv.VERIF_OUT, [n |-> Len(Trace), bad |-> bad, drift |-> drift])
========================================================================
