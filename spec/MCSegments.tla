--------------------------- MODULE MCSegments ---------------------------
(* Design-level check of Segments.tla: the reference operators satisfy the C13      *)
(* predicates for every (size, initial, end) and every sorted disjoint range list.  *)
EXTENDS Segments, TLC
CONSTANTS MaxSz, MaxInit, MaxEnd, MaxPt, MaxChunk

VARIABLE c
vars == <<c>>

SegCases == { [k |-> "seg", sz |-> s, init |-> i, end |-> e] :
                s \in 1..MaxSz, i \in 0..MaxInit, e \in 1..MaxEnd }
RECURSIVE PairUp(_)
SetToSortedSeq(S) ==
  LET RECURSIVE F(_)
      F(T) == IF T = {} THEN <<>> ELSE LET m == CHOOSE x \in T : \A y \in T : x <= y IN <<m>> \o F(T \ {m})
  IN F(S)
PairUp(s) == IF Len(s) < 2 THEN <<>> ELSE << <<s[1], s[2]>> >> \o PairUp(SubSeq(s, 3, Len(s)))
\* every sorted list of disjoint non-empty ranges over 0..MaxPt: a chain of cut points, each
\* consecutive pair of points either "in" a range or a gap: encode as points + which gaps are ranges
RangeLists ==
  { [k |-> "ranges", pts |-> SetToSortedSeq(P), on |-> O] :
      P \in { Q \in SUBSET (0..MaxPt) : Cardinality(Q) >= 2 }, O \in {TRUE, FALSE} }
\* ranges of a list: with on=TRUE every consecutive pair of points is a range (adjacent chain);
\* with on=FALSE points are paired up (gaps between ranges)
ListOf(rc) ==
  IF rc.on THEN [i \in 1..(Len(rc.pts) - 1) |-> <<rc.pts[i], rc.pts[i + 1]>>]
  ELSE PairUp(rc.pts)

Init == c \in { x \in SegCases : x.init < x.end } \cup RangeLists
Next == UNCHANGED c

SegOK(x) ==
  LET rs == AllSegs(x.sz, x.init, x.end)
      f  == FirstIndex(x.sz, x.init)
      la == LastIndex(x.sz, x.end)
  IN /\ Tiles(x.sz, x.init, x.end, rs)
     /\ \A b \in x.init..(x.end - 1) : StartIndexOK(b, IndexForStartBlock(x.sz, b), f, rs)
     /\ \A e \in (x.init + 1)..x.end : EndIndexOK(e, IndexForEndBlock(x.sz, e), f, rs)
     /\ SegRange(x.sz, x.init, x.end, f - 1) = <<>>
     /\ SegRange(x.sz, x.init, x.end, la + 1) = <<>>
     /\ \A i \in f..la : EndsOnInterval(x.sz, x.init, x.end, i) <=> (rs[i - f + 1][2] % x.sz = 0)

RangesOK(x) ==
  LET rs == ListOf(x) IN
  /\ SortedDisjoint(rs)
  /\ MergedOK(rs, Merged(rs))
  /\ \A i \in DOMAIN rs : \A ch \in 1..MaxChunk : SplitOK(rs[i], ch, Split(rs[i], ch))

CaseOK == IF c.k = "seg" THEN SegOK(c) ELSE RangesOK(c)
========================================================================
