------------------------------- MODULE MCSched -------------------------------
(* Exhaustive model of the scheduler in its environment (C05, and L1 of the compositional argument  *)
(* for C01/C07): the event loop (pools of commands not yet run and of messages not yet delivered,    *)
(* any order), tier2 jobs and store merges as file-producing commands (per Tier2.tla's observed      *)
(* behaviour: what a job needs and writes), the walker, for EVERY initial cache state of the grid.   *)
EXTENDS Sched
CONSTANTS KindsC,      \* e.g. <<"S", "S", "M">>
          NSeg,        \* segments 0..NSeg-1
          MapFirstC,   \* first segment the mapper stage writes (WriteExecOut) = segment of the start block; ignored without map stage
          WorkersC,
          StartSegC,   \* segment of the request's start block
          CacheMode    \* "empty" | "prefix" (snapshots form a prefix, outputs only where stores exist) | "partials" | "any"

VARIABLES files,       \* set of [k, stage, seg]
          cached,      \* cached[stage+1]: segment END the in-memory store of the stage is synced to (-1 = empty / at init, -2 = none)
          cmds, msgs,  \* pools of the event loop
          quit,        \* "" | "ok" | "error"
          merged,      \* history: per stage, sequence of merged segments
          jobsStarted  \* history: units whose job started with an input snapshot missing
vars == <<cfg, st, segDone, shadowable, busy, walkerSeg, walkerWorking, outDone, storesDone, invalid,
          files, cached, cmds, msgs, quit, merged, jobsStarted>>

K3 == <<"S", "S", "M">>
K4 == <<"S", "S", "S", "M">>
K2 == <<"S", "M">>
K2S == <<"S", "S">>
NSt == Len(KindsC)
HasMap == KindsC[NSt] = "M"
StoreStages == {s \in 0..(NSt - 1) : KindsC[s + 1] = "S"}
\* every module starts at block 0 (first = 0); the mapper stage only WRITES from mapFirst on (NoOp before)
TheCfg ==
  [kinds |-> KindsC, first |-> [i \in 1..NSt |-> 0], last |-> [i \in 1..NSt |-> NSeg - 1],
   gfirst |-> 0, glast |-> NSeg - 1, offset |-> 0,
   hasStores |-> StoreStages # {}, storeFirst |-> 0, storeLast |-> NSeg - 1, storeEmpty |-> FALSE,
   hasMap |-> HasMap, mapFirst |-> MapFirstC, mapLast |-> NSeg - 1,
   hasWalker |-> HasMap, walkerFirst |-> StartSegC, walkerLast |-> NSeg - 1, outputIsIndex |-> FALSE, workers |-> WorkersC]

AllFiles == { [k |-> "kv", stage |-> s, seg |-> g] : s \in StoreStages, g \in 0..(NSeg - 1) }
       \cup { [k |-> "partial", stage |-> s, seg |-> g] : s \in StoreStages, g \in 0..(NSeg - 1) }
       \cup (IF HasMap THEN { [k |-> "output", stage |-> NSt - 1, seg |-> g] : g \in MapFirstC..(NSeg - 1) } ELSE {})

Has(F, k, s, g) == [k |-> k, stage |-> s, seg |-> g] \in F
\* caches as complete earlier runs leave them: per store stage the snapshots present form a prefix 0..n, no partials,
\* outputs only for segments whose lower-stage snapshots exist
PrefixCache(F) ==
  /\ \A f \in F : f.k # "partial"
  /\ \A s \in StoreStages, g \in 1..(NSeg - 1) : Has(F, "kv", s, g) => Has(F, "kv", s, g - 1)
  /\ \A s \in StoreStages, g \in 0..(NSeg - 1) : Has(F, "kv", s, g) => \A s2 \in StoreStages : s2 < s => Has(F, "kv", s2, g)   \* a store is never ahead of the stores it reads
  /\ \A g \in 0..(NSeg - 1) : Has(F, "output", NSt - 1, g) => \A s \in StoreStages : Has(F, "kv", s, g)
InitialCaches ==
  IF CacheMode = "empty" THEN {{}}
  ELSE IF CacheMode = "prefix" THEN {F \in SUBSET AllFiles : PrefixCache(F)}
  \* what a crash leaves on a cold cache before anything was merged: any subset of the partial files
  ELSE IF CacheMode = "partials" THEN SUBSET {f \in AllFiles : f.k = "partial"}
  ELSE SUBSET AllFiles

Init ==
  /\ cfg = TheCfg
  /\ files \in InitialCaches
  /\ LET fs == FetchState(files) IN
       /\ segDone = fs.sd
       /\ shadowable = ShadowableFor(fs.m, StartSegC)
       /\ \* Scheduler.Init(): CmdStartMerge evaluates CmdTryMerge for every store stage, in order
          LET RECURSIVE Go(_, _, _, _)
              Go(m, s, mg, all) ==
                IF s > NSt - 1 THEN [m |-> m, merges |-> mg, allDone |-> all]
                ELSE IF KindsC[s + 1] # "S" THEN Go(m, s + 1, mg, all)
                ELSE LET t == TryMerge(m, fs.sd, s) IN Go(t.m, s + 1, IF t.merge = <<>> THEN mg ELSE mg \cup {t.merge}, all \/ t.allDone)
              r == Go(fs.m, 0, {}, FALSE)
          IN /\ st = r.m
             /\ cmds = {[t |-> "Merge", seg |-> u[1], stage |-> u[2]] : u \in r.merges}
             /\ msgs = {[t |-> "ScheduleNextJob", seg |-> 0, stage |-> 0]}
                       \cup (IF HasMap THEN {[t |-> "DownloadSegment", seg |-> 0, stage |-> 0]} ELSE {})
                       \cup (IF AllStoresCompleted(fs.m) \/ r.allDone THEN {[t |-> "AllStoresCompleted", seg |-> 0, stage |-> 0]} ELSE {})
  /\ busy = 0 /\ walkerSeg = StartSegC /\ walkerWorking = FALSE /\ outDone = ~HasMap /\ storesDone = FALSE /\ invalid = ""
  /\ cached = [i \in 1..NSt |-> -2]
  /\ quit = "" /\ merged = [i \in 1..NSt |-> <<>>] /\ jobsStarted = {}

M(t, seg, stage) == [t |-> t, seg |-> seg, stage |-> stage]

Deliver(m) ==
  /\ quit = "" /\ m \in msgs
  /\ LET u == Update(m)  c == u.cmds IN
       /\ ApplyUpdate(u)
       /\ cmds' = (cmds \cup {M("Job", x[1], x[2]) : x \in c.jobs} \cup {M("Merge", x[1], x[2]) : x \in c.merges}
                        \cup (IF c.fetch THEN {M("Fetch", 0, 0)} ELSE {}) \cup (IF c.shutdown THEN {M("WaitAsyncAndQuit", 0, 0)} ELSE {}))
       /\ msgs' = ((msgs \ {m}) \cup (IF c.schedule THEN {M("ScheduleNextJob", 0, 0)} ELSE {})
                                 \cup (IF c.download THEN {M("DownloadSegment", 0, 0)} ELSE {})
                                 \cup (IF c.allStores THEN {M("AllStoresCompleted", 0, 0)} ELSE {})
                                 \cup (IF c.walkerDone THEN {M("WalkerCompleted", 0, 0)} ELSE {}))
       /\ quit' = IF c.quitErr \/ (invalid = "" /\ u.bad # "") THEN "error" ELSE quit
  /\ UNCHANGED <<files, cached, merged, jobsStarted>>

------------------------------------------------------------------------
(* commands with an effect on files *)

\* a tier2 job (stage k, segment g): needs the full snapshot at the segment START of every lower store stage;
\* writes the output file (mapper stage), a partial for the stores of stage k, a full snapshot at the segment end for lower
\* store stages (unless a full or partial exists); it is skipped entirely when it is the mapper stage and the output exists
InputsPresent(F, k, g) == g = 0 \/ \A s \in StoreStages : s < k => Has(F, "kv", s, g - 1)
JobWrites(F, k, g) ==
  IF KindsC[k + 1] = "M" /\ Has(F, "output", k, g) THEN {}
  ELSE (IF KindsC[k + 1] = "M" THEN {[k |-> "output", stage |-> k, seg |-> g]} ELSE {})
       \cup {[k |-> "kv", stage |-> s, seg |-> g] : s \in {x \in StoreStages : x < k /\ ~Has(F, "kv", x, g) /\ ~Has(F, "partial", x, g)}}
       \cup (IF KindsC[k + 1] = "S" /\ ~Has(F, "kv", k, g) /\ ~Has(F, "partial", k, g) THEN {[k |-> "partial", stage |-> k, seg |-> g]} ELSE {})

ExecJob(c) ==
  /\ quit = "" /\ c \in cmds /\ c.t = "Job"
  /\ cmds' = cmds \ {c}
  /\ LET skipped == KindsC[c.stage + 1] = "M" /\ Has(files, "output", c.stage, c.seg) IN
     IF skipped \/ InputsPresent(files, c.stage, c.seg)
     THEN /\ files' = files \cup JobWrites(files, c.stage, c.seg)
          /\ msgs' = msgs \cup {M("JobSucceeded", c.seg, c.stage)}
          /\ UNCHANGED jobsStarted
     ELSE \* the job cannot load an input snapshot: it retries for a while, then fails the request
          /\ jobsStarted' = jobsStarted \cup {<<c.seg, c.stage>>}
          /\ msgs' = msgs \cup {M("JobFailed", c.seg, c.stage)}
          /\ UNCHANGED files
  /\ UNCHANGED <<schedVars, cached, quit, merged>>

\* multiSquash of the (single) store of the stage for segment g
ExecMerge(c) ==
  /\ quit = "" /\ c \in cmds /\ c.t = "Merge"
  /\ cmds' = cmds \ {c}
  /\ LET s == c.stage  g == c.seg
         baseOK == g = 0 \/ cached[s + 1] = g - 1 \/ Has(files, "kv", s, g - 1)         \* getStore(segment start)
         canFull == Has(files, "kv", s, g)
         canPart == Has(files, "partial", s, g) IN
     IF ~baseOK \/ (~canFull /\ ~canPart)
     THEN /\ msgs' = msgs \cup {M("MergeFailed", g, s)} /\ UNCHANGED <<files, cached, merged>>
     ELSE \* whichever file loads first: the full snapshot at the segment end, or the partial (then merge, delete it, save)
          \/ /\ canFull
             /\ cached' = [cached EXCEPT ![s + 1] = g]
             /\ msgs' = msgs \cup {M("MergeFinished", g, s)}
             /\ merged' = [merged EXCEPT ![s + 1] = Append(@, g)]
             /\ UNCHANGED files
          \/ /\ canPart
             /\ cached' = [cached EXCEPT ![s + 1] = g]
             /\ files' = (files \ {[k |-> "partial", stage |-> s, seg |-> g]}) \cup {[k |-> "kv", stage |-> s, seg |-> g]}
             /\ msgs' = msgs \cup {M("MergeFinished", g, s)}
             /\ merged' = [merged EXCEPT ![s + 1] = Append(@, g)]
  /\ UNCHANGED <<schedVars, quit, jobsStarted>>

\* the walker reads the output file of its current segment
ExecFetch(c) ==
  /\ quit = "" /\ c \in cmds /\ c.t = "Fetch"
  /\ cmds' = cmds \ {c}
  /\ msgs' = msgs \cup {IF Has(files, "output", NSt - 1, walkerSeg) THEN M("FileDownloaded", 0, 0) ELSE M("FileNotPresent", 0, 0)}
  /\ UNCHANGED <<schedVars, files, cached, quit, merged, jobsStarted>>

ExecQuit(c) ==
  /\ quit = "" /\ c \in cmds /\ c.t = "WaitAsyncAndQuit"
  /\ cmds' = cmds \ {c} /\ quit' = "ok"
  /\ UNCHANGED <<schedVars, files, cached, msgs, merged, jobsStarted>>

Next ==
  \/ \E m \in msgs : Deliver(m)
  \/ \E c \in cmds : ExecJob(c) \/ ExecMerge(c) \/ ExecFetch(c) \/ ExecQuit(c)

Fairness == /\ \A t \in {"ScheduleNextJob", "DownloadSegment", "AllStoresCompleted", "WalkerCompleted", "FileNotPresent", "FileDownloaded"} :
                  WF_vars(Deliver(M(t, 0, 0)))
            /\ \A g \in 0..(NSeg - 1), s \in 0..(NSt - 1) :
                  /\ WF_vars(Deliver(M("JobSucceeded", g, s))) /\ WF_vars(Deliver(M("MergeFinished", g, s)))
                  /\ WF_vars(Deliver(M("JobFailed", g, s))) /\ WF_vars(Deliver(M("MergeFailed", g, s)))
                  /\ WF_vars(ExecJob(M("Job", g, s))) /\ WF_vars(ExecMerge(M("Merge", g, s)))
            /\ WF_vars(ExecFetch(M("Fetch", 0, 0))) /\ WF_vars(ExecQuit(M("WaitAsyncAndQuit", 0, 0)))
Spec == Init /\ [][Next]_vars /\ Fairness

------------------------------------------------------------------------
(* properties (C05) *)
NoInvalidState == invalid = ""
JobInputsComplete == jobsStarted = {}                 \* no job ever started before its input snapshots existed
NoFailure == quit # "error"
MergeOnceInOrder ==
  \A i \in 1..NSt : \A a, b \in DOMAIN merged[i] : a < b => merged[i][a] < merged[i][b]
WorkersConsistent ==
  \/ quit # ""
  \/ (busy >= 0 /\ busy <= WorkersC /\ busy = Cardinality({c \in cmds : c.t = "Job"}) + Cardinality({m \in msgs : m.t \in {"JobSucceeded", "JobFailed"}}))
Terminates == <>(quit # "")
\* when the scheduler quits without error, every store is built up to the hand-off and every requested output is written
OutcomeOK == quit = "ok" =>
  /\ \A s \in StoreStages : cached[s + 1] = NSeg - 1 \/ Has(files, "kv", s, NSeg - 1)
  /\ HasMap => \A g \in StartSegC..(NSeg - 1) : Has(files, "output", NSt - 1, g)
==============================================================================
