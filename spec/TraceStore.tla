---------------------------- MODULE TraceStore ----------------------------
(* Trace validation of the store driver (harness/store.go).  The trace is a sequence of  *)
(* chains, each starting with a "reset" record.  The specification state (seq, part,     *)
(* merged ...) evolves from the logged INPUTS (operations) through the operators of      *)
(* Store.tla; the logged OBSERVATIONS of the real FullKV / PartialKV objects are judged  *)
(* against it.  Failures are accumulated as signature strings "Cxx:what" so that each    *)
(* property's check picks the ones that decide it (C02 C08 C09 C10 C11).                 *)
EXTENDS Store, Json, IOUtils

Trace == ndJsonDeserialize(IOEnv.VERIF_TRACE)

VARIABLES l, bad, drift,
          pol, K,        \* policy and sorted key universe of the current chain
          seq,           \* specification's sequential content (all blocks applied to one store)
          part,          \* specification's current partial store [kv, del]
          merged,        \* specification's merged content (full store after merging the partials so far)
          prevSeq        \* sequential content before the last block (target of an undo)
vars == <<l, bad, drift, pol, K, seq, part, merged, prevSeq>>

F(cond, sig) == IF cond THEN <<>> ELSE <<sig>>
SeqSet(s) == {s[i] : i \in DOMAIN s}

Vis(kv) == VisibleKV(pol, kv)

\* what a reader must see for a stored optional value
VisOpt(o) == IF o = None THEN None ELSE Some(Visible(pol, o[1]))

ReadFails(r, rd, exp) ==
  LET want == VisOpt(IF rd.kind = "first" THEN Lookup(seq, rd.key)
                     ELSE IF rd.kind = "last" THEN Lookup(exp.kv, rd.key)
                     ELSE GetAt(pol, K, seq, r.ops, rd.ord, rd.key)) IN
     F(rd.got = want /\ rd.found = (want # None), "C08:get_" \o rd.kind)
  \o F(rd.has = (want # None), "C08:has_" \o rd.kind)

RECURSIVE AllReadFails(_, _, _, _)
AllReadFails(r, rds, i, exp) ==
  IF i > Len(rds) THEN <<>> ELSE ReadFails(r, rds[i], exp) \o AllReadFails(r, rds, i + 1, exp)

RECURSIVE Uniq(_, _)
Uniq(s, seen) == IF s = <<>> THEN <<>>
                 ELSE IF Head(s) \in seen THEN Uniq(Tail(s), seen) ELSE <<Head(s)>> \o Uniq(Tail(s), seen \cup {Head(s)})

BlockFails(r) ==
  LET exp   == Flush(pol, K, seq, r.ops)
      pexp  == PartFlush(pol, K, part, r.ops) IN
  IF r.unparsed THEN <<"C02:unparsable_value", "C08:unparsable_value">>
  ELSE IF r.err # "" \/ r.err2 # "" THEN <<"C08:unexpected_error", "C09:unexpected_error">>
  ELSE
     F(r.pre.kv = seq, "C08:pre_content")
  \o F(r.S.kv = exp.kv, "C08:effect_stable_ordinal_order")
  \o F(DeltaChainOK(r.pre.kv, r.deltas), "C08:delta_old_value")
  \o F(ApplyDeltas(r.pre.kv, r.deltas) = r.S.kv, "C08:deltas_give_post_content")
  \o AllReadFails(r, r.reads, 1, exp)
  \o F(r.S.size = r.S.actual, "C11:size_full_after_block")
  \o F(r.rawEq /\ r.deltas2 = r.deltas, "C09:replayed_deltas")
  \o F(r.S2.kv = r.S.kv, "C09:replayed_content")
  \o F(r.S2.size = r.S2.actual, "C11:size_full_after_replay")
  \o (IF r.seg THEN
        F(r.P.kv = pexp.kv, "C02:partial_content")
     \o F(r.P.del = pexp.del, "C02:partial_deleted_prefixes")
     \o F(r.P.size = r.P.actual, "C11:size_partial_after_block")
     \o F(r.P2.kv = r.P.kv, "C09:replayed_partial_content")
     \o F(SeqSet(r.P2.del) = SeqSet(r.P.del), "C09:replayed_partial_deleted_prefixes")
     \o F(r.P2.size = r.P2.actual, "C11:size_partial_after_replay")
      ELSE <<>>)

CutFails(r) ==
  LET mexp == Merge(pol, merged, part) IN
  IF r.unparsed THEN <<"C02:unparsable_value", "C10:unparsable_value">>
  ELSE IF r.err # "" THEN <<"C02:unexpected_error", "C10:unexpected_error">>
  ELSE
     F(r.loaded.kv = r.saved.kv, "C10:partial_roundtrip_content")
  \o F(r.loaded.del = r.saved.del, "C10:partial_roundtrip_deleted_prefixes")
  \o F(r.loaded.size = r.saved.actual, "C10:partial_roundtrip_size")
  \o F(r.Mloaded.kv = r.M.kv, "C10:full_roundtrip_content")
  \o F(r.Mloaded.size = r.M.actual, "C10:full_roundtrip_size")
  \o F(Vis(r.M.kv) = Vis(r.S.kv), "C02:merged_ne_sequential")
  \o F(Vis(r.M.kv) = Vis(seq), "C02:merged_ne_spec_sequential")
  \o F(Vis(r.M2.kv) = Vis(r.S.kv), "C09:merge_of_replayed_partial_ne_sequential")
  \o F(r.M.size = r.M.actual, "C11:size_after_merge")
  \o F(r.M2.size = r.M2.actual, "C11:size_after_merge_of_replayed")
  \o F(r.loaded.size = r.loaded.actual, "C11:size_after_partial_load")
  \o F(r.Mloaded.size = r.Mloaded.actual, "C11:size_after_full_load")

UndoFails(r) ==
  IF r.unparsed THEN <<"C11:unparsable_value">>
  ELSE IF r.err # "" THEN <<"C11:unexpected_error", "C03:unexpected_error">>
  ELSE
     F(r.S.kv = prevSeq, "C03:undo_restores_content")
  \o F(r.S.size = r.S.actual, "C11:size_after_undo")

SaveLoadFails(r) ==
  IF r.unparsed THEN <<"C10:unparsable_value">>
  ELSE IF r.err # "" THEN <<"C10:unexpected_error">>
  ELSE
     F(r.S.kv = r.pre.kv, "C10:full_roundtrip_content")
  \o F(r.S.size = r.pre.actual, "C10:full_roundtrip_size")
  \o F(r.S.size = r.S.actual, "C11:size_after_full_load")

Fails(r) ==
  CASE r.ev = "reset"    -> <<>>
    [] r.ev = "block"    -> BlockFails(r)
    [] r.ev = "cut"      -> CutFails(r)
    [] r.ev = "undo"     -> UndoFails(r)
    [] r.ev = "saveload" -> SaveLoadFails(r)
    [] OTHER             -> <<"C02:unknown_record">>

\* differences with the reference operators that do not falsify a property predicate
DriftOf(r) ==
  IF r.ev = "block" /\ ~r.unparsed /\ r.err = "" THEN
       F(r.deltas = Flush(pol, K, seq, r.ops).deltas, "drift:deltas_differ_from_reference")
    \o (IF r.seg THEN F(r.P.kv = PartFlush(pol, K, part, r.ops).kv, "drift:partial_content")
                    \o F(r.P.del = PartFlush(pol, K, part, r.ops).del, "drift:partial_deleted_prefixes") ELSE <<>>)
  ELSE IF r.ev = "cut" /\ ~r.unparsed /\ r.err = "" THEN
       F(Vis(r.M.kv) = Vis(Merge(pol, merged, part)), "drift:merged_differs_from_reference")
  ELSE <<>>

Good(r) == ~r.unparsed /\ r.err = ""

Init ==
  /\ l = 1 /\ bad = <<>> /\ drift = <<>>
  /\ pol = "" /\ K = <<>> /\ seq = EmptyKV /\ part = EmptyPart /\ merged = EmptyKV /\ prevSeq = EmptyKV

Next ==
  /\ l <= Len(Trace)
  /\ LET r == Trace[l]  f == Uniq(Fails(r), {}) IN
       /\ bad' = IF f = <<>> THEN bad ELSE Append(bad, [i |-> l, why |-> f])
       /\ drift' = IF DriftOf(r) = <<>> THEN drift ELSE Append(drift, l)
       /\ CASE r.ev = "reset" ->
                 /\ pol' = r.pol /\ K' = r.keys
                 /\ seq' = EmptyKV /\ part' = EmptyPart /\ merged' = EmptyKV /\ prevSeq' = EmptyKV
            [] r.ev = "block" ->
                 \* re-synchronise on the OBSERVED content so that each later step is judged on its own
                 /\ seq' = IF Good(r) THEN r.S.kv ELSE Flush(pol, K, seq, r.ops).kv
                 /\ prevSeq' = IF Good(r) THEN r.pre.kv ELSE seq
                 /\ part' = IF ~r.seg THEN part
                            ELSE IF Good(r) THEN [kv |-> r.P.kv, del |-> r.P.del] ELSE PartFlush(pol, K, part, r.ops)
                 /\ UNCHANGED <<pol, K, merged>>
            [] r.ev = "cut" ->
                 /\ merged' = IF Good(r) THEN r.M.kv ELSE Merge(pol, merged, part)
                 /\ part' = EmptyPart
                 /\ UNCHANGED <<pol, K, seq, prevSeq>>
            [] r.ev = "undo" ->
                 /\ seq' = IF Good(r) THEN r.S.kv ELSE prevSeq
                 /\ UNCHANGED <<pol, K, part, merged, prevSeq>>
            [] r.ev = "saveload" ->
                 /\ seq' = IF Good(r) THEN r.S.kv ELSE seq
                 /\ UNCHANGED <<pol, K, part, merged, prevSeq>>
            [] OTHER -> UNCHANGED <<pol, K, seq, part, merged, prevSeq>>
  /\ l' = l + 1

Done == l = Len(Trace) + 1
WriteVerdict ==
  Done => JsonSerialize(IOEnv.VERIF_OUT, [n |-> Len(Trace), bad |-> bad, drift |-> drift])
===========================================================================
