CONSTANTS MaxH = 5
 Branches = {"a", "b"}
 StartC = 1
 MaxReorgs = 2
 MaxReconnects = 1
SPECIFICATION Spec
INVARIANT NeverForkedReconnect
CHECK_DEADLOCK FALSE
