CONSTANTS Pol = "append"
 Ords = {0, 1}
 Prefixes = {"", "a", "ab"}
 MaxOps = 2
 CheckReads = TRUE
 AnyPre = TRUE
 MaxBlocks = 1
INIT Init
NEXT Next
INVARIANT MergedEqualsSequential
INVARIANT ActionChecks
INVARIANT SizeExact
CHECK_DEADLOCK FALSE
