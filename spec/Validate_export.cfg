INIT GenInit
NEXT GenNext
INVARIANT Export
CHECK_DEADLOCK FALSE
