------------------------------- MODULE Pipeline -------------------------------
(* The message-level behaviour of the linear pipeline under fork steps: transcription of pipeline/process_block.go        *)
(* (processBlock, handleStepNew / handleStepUndo / handleStepFinal), pipeline/gate.go and the client of the property.      *)
(*                                                                                                                          *)
(* A block is [h, br] (height, branch letter).  A step is [k \in {"new","undo","final","stalled"}, b, j] where j is the       *)
(* junction block of an undo step.  The pipeline state is [passed (the output gate), inside (insideReorgUpTo, or NoBlk)].     *)
(* A message is [k \in {"data","undo"}, b] (for an undo signal b is the last valid block).                                     *)
EXTENDS Integers, Sequences

NoBlk == [h |-> -1, br |-> ""]
PInit == [passed |-> FALSE, inside |-> NoBlk]

\* gate.go blockTriggersGate: a New step at or above the gate block opens it - and so does ANY undo step
GateAfter(ps, st, start) ==
  ps.passed \/ (st.k = "new" /\ st.b.h >= start) \/ st.k = "undo"

\* gate.go shouldSendOutputs: once the gate is open the outputs flow - but, for a request WITHOUT start cursor, never for a
\* block below the gate block: that client holds nothing below its start block, so a reorganisation reaching below it must
\* not make those blocks flow (repair of D11; a resumed client does hold blocks below the new stream's start: MCReconnect)
SendsOutputs(passed, st, start, resumed) == passed /\ (resumed \/ st.b.h >= start)

\* one step: the new pipeline state and the messages it sends (resumed: the request carries a resolved start cursor)
PStep(ps, st, start, resumed) ==
  LET passed == GateAfter(ps, st, start) IN
  IF st.k = "new" THEN
       [ps |-> [passed |-> passed, inside |-> NoBlk],
        msgs |-> IF SendsOutputs(passed, st, start, resumed) THEN <<[k |-> "data", b |-> st.b]>> ELSE <<>>]
  ELSE IF st.k = "undo" THEN
       \* handleStepUndo: the signal is sent once per reorg (insideReorgUpTo), whatever the gate says
       [ps |-> [passed |-> passed, inside |-> st.j],
        msgs |-> IF ps.inside = st.j THEN <<>> ELSE <<[k |-> "undo", b |-> st.j]>>]
  ELSE IF st.k = "final" THEN [ps |-> [passed |-> passed, inside |-> NoBlk], msgs |-> <<>>]
  ELSE [ps |-> [ps EXCEPT !.passed = passed], msgs |-> <<>>]

\* all the messages of a step sequence
RECURSIVE PMsgs(_, _, _, _)
PMsgs(ps, steps, start, resumed) ==
  IF steps = <<>> THEN <<>>
  ELSE LET r == PStep(ps, Head(steps), start, resumed) IN r.msgs \o PMsgs(r.ps, Tail(steps), start, resumed)

------------------------------------------------------------------------
(* A request with a start cursor: transcription of resolveStartBlockNum (pipeline/resolve.go) for a cursor on a block that  *)
(* is not final.  c is the block the cursor designates, j the answer of the cursor resolver (the block itself when it is     *)
(* still on the chain, else the junction of the fork).  The new stream starts right after the resolved block and, when the   *)
(* block was forked out, is preceded by an undo signal for the junction (sent by tier1 before the stream is created).         *)
PResume(c, j) ==
  IF j.h # c.h THEN [msgs |-> <<[k |-> "undo", b |-> j]>>, start |-> j.h + 1]
  ELSE [msgs |-> <<>>, start |-> c.h + 1]

------------------------------------------------------------------------
(* the client of the property: keeps every data message; on an undo signal drops the blocks above the last valid block *)
ClientStep(held, m) ==
  IF m.k = "data" THEN Append(held, m.b) ELSE SelectSeq(held, LAMBDA x : x.h <= m.b.h)

\* an undo signal must designate a block the client holds, or the one before its first
UndoOK(held, m) ==
  m.k # "undo" \/ (held # <<>> /\ ((\E i \in DOMAIN held : held[i] = m.b) \/ m.b.h = held[1].h - 1))
\* never two blocks at one height without an undo in between
DataOK(held, m) == m.k # "data" \/ held = <<>> \/ held[Len(held)].h < m.b.h
=============================================================================
