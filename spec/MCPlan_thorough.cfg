CONSTANTS Segs = {2, 3, 5, 7, 10}
 Inits = {0, 3, 7, 12}
 Outs = {0, 5, 12}
 MaxS = 26
 MaxE = 32
 Libs = {99, 0, 4, 9, 14, 19, 22, 35}
 MaxStores = 3
INIT Init
NEXT Next
INVARIANT PlanOK
CHECK_DEADLOCK FALSE
