CONSTANT UseOldPlan = TRUE
SPECIFICATION Spec
INVARIANT JobContract
CHECK_DEADLOCK FALSE
