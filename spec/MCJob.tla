-------------------------------- MODULE MCJob --------------------------------
(* Design-level check of the job contract: for EVERY subset of the files of the segment and every stage, the     *)
(* plan of Job.tla followed by the job's writes establishes Contract.  With UseOldPlan = TRUE (the rule before    *)
(* the repair 6ede1d13) TLC finds the counterexample of known finding D14: output module's file present, a lower  *)
(* store's snapshot absent, job skipped.                                                                          *)
EXTENDS Job, TLC
CONSTANT UseOldPlan
Mods == << [name |-> "m_src", kind |-> "map", stage |-> 0], [name |-> "idx", kind |-> "index", stage |-> 0],
           [name |-> "st1", kind |-> "store", stage |-> 0], [name |-> "st2", kind |-> "store", stage |-> 1],
           [name |-> "st2b", kind |-> "store", stage |-> 1], [name |-> "out", kind |-> "map", stage |-> 2] >>
NStages == 3
Universe == {File("m_src", "output"), File("idx", "index"), File("st1", "output"), File("st1", "kv"), File("st1", "partial"),
             File("st2", "output"), File("st2", "kv"), File("st2", "partial"), File("st2b", "output"), File("st2b", "kv"),
             File("st2b", "partial"), File("out", "output")}
VARIABLES before, k, after
vars == <<before, k, after>>
Init == before \in SUBSET Universe /\ k \in 0..(NStages - 1) /\ after = {}
Next == /\ after = {}
        /\ LET p == IF UseOldPlan THEN OldPlan(Mods, "out", NStages, before, k) ELSE Plan(Mods, "out", NStages, before, k) IN
           after' = After(Mods, before, k, p) \cup {File("done", "marker")}
        /\ UNCHANGED <<before, k>>
Spec == Init /\ [][Next]_vars
JobContract == after # {} => Contract(Mods, "out", NStages, before, after \ {File("done", "marker")}, k)
=============================================================================
