------------------------------ MODULE MCGraph ------------------------------
(* Design-level check of Graph.tla over ALL acyclic graphs of up to 3 modules (a, b, c in      *)
(* dependency order, shuffled list orders included):                                           *)
(*  C14: the transcription of computeStages (RefLayers) satisfies the staging predicates for    *)
(*       every output module whenever every used module has an input at its initial block;      *)
(*  C06: a single-field mutation of module x changes Sig of exactly {x} + Descendants(x);        *)
(*       renaming changes nothing.                                                              *)
EXTENDS Graph
CONSTANTS Inits, MaxN
VARIABLE st
Nm == <<"a", "b", "c", "d">>
Kinds == {"map", "store", "index"}

\* the graph grows by one module per step: every kind, initial block, input shape over the earlier modules
\* (any subset of earlier maps/stores, store inputs in get or deltas mode, optional source / params first) and filter
RECURSIVE DepSeq(_, _, _)
DepSeq(g, S, mode) ==
  IF S = {} THEN <<>> ELSE LET j == CHOOSE x \in S : \A y \in S : x <= y IN
     <<[k |-> g[j].kind, v |-> g[j].name, mode |-> IF g[j].kind = "store" THEN mode ELSE ""]>> \o DepSeq(g, S \ {j}, mode)

NewModules(g) ==
  LET i == Len(g) + 1
      refs == {j \in DOMAIN g : g[j].kind \in {"map", "store"}}
      idxs == {j \in DOMAIN g : g[j].kind = "index"} IN
  { [name |-> Nm[i], kind |-> k, init |-> ini, code |-> "c", entry |-> Nm[i],
     inputs |-> (IF src = "source" THEN <<[k |-> "source", v |-> "blk", mode |-> ""]>>
                 ELSE IF src = "params" THEN <<[k |-> "params", v |-> "p", mode |-> ""]>> ELSE <<>>) \o DepSeq(g, d, mode),
     filter |-> IF f = 0 THEN <<>> ELSE <<g[f].name, "q">>] :
       k \in Kinds, ini \in Inits, src \in {"source", "params", "none"}, d \in SUBSET refs, mode \in {"get", "deltas"},
       f \in {0} \cup idxs }

Init == st = [g |-> <<>>]
Next ==
  /\ Len(st.g) < MaxN
  /\ \E m \in NewModules(st.g) :
       /\ Len(m.inputs) >= 1
       /\ (m.kind = "index" => m.filter = <<>>)
       /\ (m.filter # <<>> => Mod(st.g, m.filter[1]).init <= m.init)
       /\ st' = [g |-> Append(st.g, m)]

Rev(s) == [i \in DOMAIN s |-> s[Len(s) + 1 - i]]

StagingOK(g, out, order) ==
  LET used == SelectSeq(order, LAMBDA n : n \in Used(g, out))
      layers == RefLayers(g, used) IN
  InitsOK(g, out) =>
    /\ ExactlyOnce(g, out, layers)
    /\ DepsBefore(g, layers)
    /\ Homogeneous(g, layers)

Mutations(g, i) ==
  { [g EXCEPT ![i].entry = "zz"], [g EXCEPT ![i].code = "c2"], [g EXCEPT ![i].init = g[i].init + 1],
    [g EXCEPT ![i].inputs = Append(g[i].inputs, [k |-> "source", v |-> "clock", mode |-> ""])] }

SigTheorem(g) ==
  \A i \in DOMAIN g : \A h \in Mutations(g, i) :
     {n \in Names(g) : Sig(g, n) # Sig(h, n)} = {g[i].name} \cup Descendants(g, g[i].name)

Rename(g) ==
  LET R(n) == "x" \o n IN
  [i \in DOMAIN g |-> [g[i] EXCEPT !.name = R(g[i].name),
      !.inputs = [k \in DOMAIN g[i].inputs |-> IF g[i].inputs[k].k \in {"map", "store"}
                                               THEN [g[i].inputs[k] EXCEPT !.v = R(g[i].inputs[k].v)] ELSE g[i].inputs[k]],
      !.filter = IF g[i].filter = <<>> THEN <<>> ELSE <<R(g[i].filter[1]), g[i].filter[2]>>]]
RenameTheorem(g) == \A i \in DOMAIN g : Sig(g, g[i].name) = Sig(Rename(g), "x" \o g[i].name)

GraphOK ==
  st.g # <<>> =>
    LET g == st.g  names == [i \in DOMAIN g |-> g[i].name] IN
    /\ \A i \in DOMAIN g : StagingOK(g, g[i].name, names) /\ StagingOK(g, g[i].name, Rev(names))
    /\ SigTheorem(g)
    /\ RenameTheorem(g)
============================================================================
