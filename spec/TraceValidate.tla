---------------------------- MODULE TraceValidate ----------------------------
(* C17 trace validation: one record per request of the TLC-exported universe (Validate.tla) and  *)
(* per large random request; the outcome observed on the real validation / graph / hashing /       *)
(* staging / resolution / planning code must follow the outcome protocol: accepted, or rejected    *)
(* with invalid-argument; never a panic, a hang or unbounded allocation.                           *)
EXTENDS Validate
Trace == ndJsonDeserialize(IOEnv.VERIF_TRACE)
VARIABLES l, bad, drift
vars == <<l, bad, drift>>
F(cond, sig) == IF cond THEN <<>> ELSE <<sig>>

OutcomeFails(o, tier) ==
  IF o.stage = "skipped" THEN <<>>
  ELSE
     F(o.panic = "", "C17:panic:" \o tier)
  \o F(~o.hung, "C17:hang:" \o tier)
  \o F(o.heapMB < 512, "C17:unbounded_allocation:" \o tier)
  \o F(o.panic # "" \/ o.hung \/ o.stage = "accepted" \/ o.code = "invalid_argument",
       "C17:rejected_with_code_" \o o.code \o "_at_" \o o.stage \o ":" \o tier)

\* the REAL tier1 entry point (graph construction + Tier1Service.blocks(), mapped by the real toConnectError) on the requests
\* rejected after the graph stage: it must reject them too, with invalid-argument, and must not crash
RealFails(o) ==
  IF "realCode" \notin DOMAIN o \/ (o.realCode = "" /\ o.realPanic = "") THEN <<>>
  ELSE F(o.realPanic = "", "C17:panic:tier1_entry_point")
    \o F(o.realPanic # "" \/ o.realCode = "invalid_argument",
         "C17:rejected_with_code_" \o o.realCode \o "_at_" \o o.stage \o ":tier1_entry_point")
RealDrift(o) == "realCode" \in DOMAIN o /\ o.realCode # "" /\ o.realCode # o.code

Fails(r) == OutcomeFails(r.tier1, "tier1") \o RealFails(r.tier1) \o OutcomeFails(r.tier2, "tier2")

Init == l = 1 /\ bad = <<>> /\ drift = <<>> /\ req = <<>>
TNext ==
  /\ l <= Len(Trace)
  /\ LET r == Trace[l]  f == Fails(r) IN
       /\ bad' = IF f = <<>> THEN bad ELSE Append(bad, [i |-> l, why |-> f])
       /\ drift' = IF RealDrift(r.tier1) THEN Append(drift, [i |-> l, why |-> <<"drift:tier1_entry_point_code_differs_from_step_sequence">>]) ELSE drift
  /\ l' = l + 1
  /\ UNCHANGED req
Done == l = Len(Trace) + 1
WriteVerdict == Done => JsonSerialize(IOEnv.VERIF_OUT, [n |-> Len(Trace), bad |-> bad, drift |-> drift])
==============================================================================
