------------------------------ MODULE MCWorker ------------------------------
(* Design-level model of the remote worker's retry loop (orchestrator/work/worker.go) composed with the job's   *)
(* idempotence: a job attempt is hit by an environment-chosen outcome; retryable outcomes are retried (a retry  *)
(* sees the files a previous attempt wrote), InvalidArgument is fatal, three deadline timeouts are fatal.       *)
(* Checked for every placement of up to MaxFaults transient faults over the attempts of NJobs jobs:             *)
(*   - with transient faults only, every job eventually succeeds and the files are those of a fault-free run;    *)
(*   - a deterministic failure makes the job fail with invalid-argument at its first attempt that reaches the    *)
(*     failing block, whatever transient faults precede it.                                                      *)
EXTENDS Integers, Sequences, FiniteSets, TLC
CONSTANTS NJobs, MaxFaults, Deterministic   \* Deterministic: job number that fails deterministically (0 = none)

Outcomes == {"ok", "unavailable_before_call", "dropped_midway", "overloaded", "dropped_after_files_written", "deadline_exceeded"}
Retryable(o) == o \in {"unavailable_before_call", "dropped_midway", "overloaded", "dropped_after_files_written", "deadline_exceeded"}
WritesFiles(o) == o \in {"ok", "dropped_after_files_written"}

VARIABLES state,    \* job -> "pending" | "done" | "failed_invalid_argument" | "failed_timeouts"
          files,    \* jobs whose files are on disk
          faults,   \* transient faults injected so far
          timeouts  \* job -> deadline timeouts so far
vars == <<state, files, faults, timeouts>>
Jobs == 1..NJobs

Init == state = [j \in Jobs |-> "pending"] /\ files = {} /\ faults = 0 /\ timeouts = [j \in Jobs |-> 0]

Attempt(j, o) ==
  /\ state[j] = "pending"
  /\ (o # "ok" => faults < MaxFaults)
  /\ faults' = IF o = "ok" THEN faults ELSE faults + 1
  /\ IF j = Deterministic /\ o \in {"ok", "dropped_midway", "dropped_after_files_written", "deadline_exceeded"}
     THEN \* the attempt reaches the failing block: tier2 answers InvalidArgument, which is fatal (never retried)
          /\ state' = [state EXCEPT ![j] = "failed_invalid_argument"] /\ UNCHANGED <<files, timeouts>>
     ELSE /\ files' = IF WritesFiles(o) THEN files \cup {j} ELSE files
          /\ timeouts' = IF o = "deadline_exceeded" THEN [timeouts EXCEPT ![j] = @ + 1] ELSE timeouts
          /\ state' = IF o = "ok" THEN [state EXCEPT ![j] = "done"]
                      ELSE IF o = "deadline_exceeded" /\ timeouts[j] + 1 >= 3 THEN [state EXCEPT ![j] = "failed_timeouts"]
                      ELSE state                                            \* retryable: stays pending

Next == \E j \in Jobs, o \in Outcomes : Attempt(j, o)
Spec == Init /\ [][Next]_vars /\ \A j \in Jobs : WF_vars(Attempt(j, "ok"))

\* safety: a job is done only with its files present; a deterministic failure is never reported as success
DoneHasFiles == \A j \in Jobs : state[j] = "done" => j \in files
DeterministicNeverDone == Deterministic # 0 => state[Deterministic] # "done"
\* liveness: bounded transient faults never prevent completion (timeouts excluded by MaxFaults < 3 in the cfg)
AllSettle == <>(\A j \in Jobs : state[j] # "pending")
TransientOnlyAllDone == (Deterministic = 0 /\ MaxFaults < 3) => <>(\A j \in Jobs : state[j] = "done")
==============================================================================
