CONSTANT NBlocks = 2
INIT Init
NEXT Next
INVARIANT Theorem
CHECK_DEADLOCK FALSE
