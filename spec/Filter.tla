------------------------------- MODULE Filter -------------------------------
(* Block-filter expressions (sqe): AST <<"key", k>> | <<"and", children>> | <<"or", children>> | *)
(* <<"paren", child>>; evaluation against one block's key set and against a pre-computed index *)
(* (key -> set of blocks).  C15: both must select the same blocks.                             *)
EXTENDS Integers, Sequences, FiniteSets, TLC

RECURSIVE EvalKeys(_, _)
EvalKeys(e, K) ==
  CASE e[1] = "key"   -> e[2] \in K
    [] e[1] = "and"   -> \A i \in DOMAIN e[2] : EvalKeys(e[2][i], K)
    [] e[1] = "or"    -> \E i \in DOMAIN e[2] : EvalKeys(e[2][i], K)
    [] e[1] = "paren" -> EvalKeys(e[2], K)

\* idx: function key -> set of blocks (absent key = no block)
RECURSIVE EvalBitmap(_, _)
EvalBitmap(e, idx) ==
  CASE e[1] = "key"   -> IF e[2] \in DOMAIN idx THEN idx[e[2]] ELSE {}
    [] e[1] = "and"   -> LET RECURSIVE Inter(_, _)
                             Inter(i, acc) == IF i > Len(e[2]) THEN acc ELSE Inter(i + 1, acc \cap EvalBitmap(e[2][i], idx))
                         IN Inter(2, EvalBitmap(e[2][1], idx))
    [] e[1] = "or"    -> UNION {EvalBitmap(e[2][i], idx) : i \in DOMAIN e[2]}
    [] e[1] = "paren" -> EvalBitmap(e[2], idx)

\* index of an assignment (block -> key set)
IndexOf(assign, keys) == [k \in keys |-> {b \in DOMAIN assign : k \in assign[b]}]
==============================================================================
