------------------------------ MODULE MCFilter ------------------------------
(* Design-level theorem for C15: for every expression (depth <= 2, <= 3 children) over 3 keys and *)
(* every assignment of key sets to 3 blocks, evaluation on the pre-computed index selects exactly  *)
(* the blocks whose own keys satisfy the expression.                                                *)
EXTENDS Filter
Keys == {"a", "b", "c"}
CONSTANT NBlocks
Blocks == 1..NBlocks
Leaves == {<<"key", k>> : k \in Keys}
Seqs(S, n) == UNION {[1..m -> S] : m \in 1..n}
D1 == Leaves \cup {<<op, cs>> : op \in {"and", "or"}, cs \in Seqs(Leaves, 3)} \cup {<<"paren", c>> : c \in Leaves}
D2 == D1 \cup {<<op, cs>> : op \in {"and", "or"}, cs \in Seqs(D1, 2)} \cup {<<"paren", c>> : c \in D1}
VARIABLE st
Init == st \in [e : {<<"key", "a">>}, asg : [Blocks -> SUBSET Keys], phase : {1}]
Next == st.phase = 1 /\ \E e \in D2 : st' = [e |-> e, asg |-> st.asg, phase |-> 2]
Theorem == st.phase = 2 =>
  EvalBitmap(st.e, IndexOf(st.asg, Keys)) = {b \in Blocks : EvalKeys(st.e, st.asg[b])}
==============================================================================
