------------------------------ MODULE Validate ------------------------------
(* C17: the universe of structurally arbitrary requests and the outcome protocol of the request  *)
(* pipeline.  TLC enumerates the universe (it IS the test generator: every state is exported as  *)
(* one JSON line and materialised as a real pbsubstreamsrpc.Request by the harness); the trace    *)
(* specification TraceValidate judges the outcome observed on the real code.                     *)
EXTENDS Integers, Sequences, FiniteSets, TLC, Json, CSV, IOUtils

Kinds == {"map", "store", "index", "absent"}
\* one input of a module; names refer to modules "a", "b", a missing module "zz" or the module itself ("self")
InputShapes == {
  <<>>,
  <<[k |-> "source", v |-> "blk"]>>,
  <<[k |-> "source", v |-> "other.Block"]>>,
  <<[k |-> "source", v |-> ""]>>,
  <<[k |-> "params", v |-> "p"]>>,
  <<[k |-> "source", v |-> "blk"], [k |-> "params", v |-> "p"]>>,      \* params not first
  <<[k |-> "map", v |-> "a"]>>, <<[k |-> "map", v |-> "b"]>>, <<[k |-> "map", v |-> "zz"]>>, <<[k |-> "map", v |-> "self"]>>,
  <<[k |-> "store", v |-> "a", mode |-> 1]>>, <<[k |-> "store", v |-> "b", mode |-> 2]>>, <<[k |-> "store", v |-> "zz", mode |-> 1]>>,
  <<[k |-> "store", v |-> "a", mode |-> 0]>>, <<[k |-> "store", v |-> "b", mode |-> 7]>>, <<[k |-> "store", v |-> "self", mode |-> 1]>>,
  <<[k |-> "absent"]>>,                                                \* input with no oneof set
  <<[k |-> "nilsource"]>>, <<[k |-> "nilmap"]>>, <<[k |-> "nilstore"]>>, <<[k |-> "nilparams"]>>,   \* oneof set, inner message nil
  <<[k |-> "source", v |-> "blk"], [k |-> "map", v |-> "a"], [k |-> "store", v |-> "b", mode |-> 1]>> }
Filters == {"none", "a", "b", "zz", "self", "noquery_a", "nilquery_b", "noquery_zz"}
Inits == {0, 5, -1, -2}        \* -1 stands for 2^63, -2 for 2^64-1 (the "unset" marker), materialised by the harness
BinIdx == {0, 1, 5}

Module(n) == [name : {n}, kind : Kinds, inputs : InputShapes, filter : Filters, init : Inits, bin : BinIdx]
Sane(n, kind, ins) == [name |-> n, kind |-> kind, inputs |-> ins, filter |-> "none", init |-> 0, bin |-> 0]

ReqEnv == [out : {"a", "b", "zz", ""}, start : {-3, 0, 7}, stop : {0, 5, 7}, cursor : {"", "garbage", "wellformed"}, prod : BOOLEAN,
           dupnames : BOOLEAN, nbins : {0, 1, 2}, bintype : {"wasm/rust-v1", "bogus"}, nilmods : BOOLEAN, nilentry : BOOLEAN]
DefaultEnv == [out |-> "b", start |-> 0, stop |-> 7, cursor |-> "", prod |-> FALSE, dupnames |-> FALSE, nbins |-> 1,
               bintype |-> "wasm/rust-v1", nilmods |-> FALSE, nilentry |-> FALSE]

\* family 1: module a sane (a source mapper or a store), module b ARBITRARY in every field; default environment
\* family 2: both modules from a reduced field set, interacting (cycles, self references, wrong kinds)
\* family 3: two sane modules, ARBITRARY environment
VARIABLE req
GenInit ==
  \/ \E ka \in {"map", "store", "index"}, b \in Module("b") :
        req = [mods |-> <<Sane("a", ka, <<[k |-> "source", v |-> "blk"]>>), b>>, env |-> DefaultEnv]
  \/ \E ka, kb \in Kinds, ia, ib \in {s \in InputShapes : Len(s) = 1}, fa \in {"none", "b"} :
        req = [mods |-> <<[name |-> "a", kind |-> ka, inputs |-> ia, filter |-> fa, init |-> 0, bin |-> 0],
                          [name |-> "b", kind |-> kb, inputs |-> ib, filter |-> "none", init |-> 5, bin |-> 0]>>, env |-> DefaultEnv]
  \/ \E e \in ReqEnv, kb \in {"map", "store"} :
        req = [mods |-> <<Sane("a", "map", <<[k |-> "source", v |-> "blk"]>>), Sane("b", kb, <<[k |-> "map", v |-> "a"]>>)>>, env |-> e]
  \/ \E ia, ib \in {0, 5, 7}, st \in {-3, 0, 7, 9}, sp \in {0, 5, 7}, p \in BOOLEAN, kb \in {"map", "store"} :   \* family 4: ranges
        req = [mods |-> <<[Sane("a", "map", <<[k |-> "source", v |-> "blk"]>>) EXCEPT !.init = ia],
                          [Sane("b", kb, <<[k |-> "map", v |-> "a"]>>) EXCEPT !.init = ib]>>,
               env |-> [DefaultEnv EXCEPT !.start = st, !.stop = sp, !.prod = p, !.out = IF kb = "map" THEN "b" ELSE "a"]]
  \/ \E ia \in Inits, ib \in {0, 5, -2}, st \in {0, 7}, sp \in {0, 9}, p \in BOOLEAN, md \in {1, 2}, src \in BOOLEAN :   \* family 5: a store with an
        \* extreme initial block under a servable mapper
        req = [mods |-> <<[Sane("a", "store", <<[k |-> "source", v |-> "blk"]>>) EXCEPT !.init = ia],
                          [Sane("b", "map", IF src THEN <<[k |-> "source", v |-> "blk"], [k |-> "store", v |-> "a", mode |-> md]>>
                                                   ELSE <<[k |-> "store", v |-> "a", mode |-> md]>>) EXCEPT !.init = ib]>>,
               env |-> [DefaultEnv EXCEPT !.start = st, !.stop = sp, !.prod = p]]
GenNext == UNCHANGED req

\* exporting side effect: one JSON line per request
Export == CSVWrite("%1$s", <<ToJson(req)>>, IOEnv.VERIF_EXPORT)

------------------------------------------------------------------------
(* outcome protocol *)
Stages == <<"validate", "graph", "details", "startisstop", "startblock", "plan", "accepted">>
OutcomeOK(o) ==
  /\ o.panic = ""
  /\ ~o.hung
  /\ o.heapMB < 512
  /\ (o.stage # "accepted" => o.code = "invalid_argument")
==============================================================================
