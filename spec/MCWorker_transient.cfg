CONSTANTS NJobs = 3
 MaxFaults = 2
 Deterministic = 0
SPECIFICATION Spec
INVARIANT DoneHasFiles
PROPERTY AllSettle
PROPERTY TransientOnlyAllDone
CHECK_DEADLOCK FALSE
