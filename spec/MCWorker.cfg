CONSTANTS NJobs = 3
 MaxFaults = 2
 Deterministic = 2
SPECIFICATION Spec
INVARIANT DoneHasFiles
INVARIANT DeterministicNeverDone
PROPERTY AllSettle
PROPERTY TransientOnlyAllDone
CHECK_DEADLOCK FALSE
