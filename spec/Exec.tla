-------------------------------- MODULE Exec --------------------------------
(* Reference semantics of module programs (the DSL interpreted by harness/verifvm.go) and of the *)
(* per-block execution rules of pipeline/exec: ONE SEQUENTIAL EXECUTION of the whole module      *)
(* graph over a chain of blocks.  This is the oracle ("SeqExec") every end-to-end stream, store  *)
(* map and cache file is judged against (C01 C03 C04 C07 C15 C16).                               *)
(*                                                                                               *)
(* A program is a sequence of module records, in dependency order:                               *)
(*   [name, kind \in {"map","store","index"}, init, inputs : Seq([k, v, mode]), filter : <<>> |  *)
(*    <<index module, AST>>, body]                                                               *)
(* A block is [num, id, branch].  Store contents use the abstract typed values of Store.tla.     *)
EXTENDS Store, Filter

VMKeys == <<"a", "ab", "b", "ba">>
Numeric(pol) == pol \in {"add", "min", "max", "set_sum"}

Holds(w, n) == w.mod = 0 \/ (n % w.mod) \in {w.res[i] : i \in DOMAIN w.res}

\* integer reading of a stored (visible) value: the number, or the length of a string value
NumOf(num, v) == IF num THEN v ELSE Len(v)

ModByName(prog, n) == prog[CHOOSE i \in DOMAIN prog : prog[i].name = n]

------------------------------------------------------------------------
(* execution context of one block: st.stores[name] = [pre, post, deltas, ops, ran] for store     *)
(* modules already executed at this block (post = pre when the store did not run);               *)
(* st.outs[name] = [present, val] for map/index modules (val = <<>> for an empty output)          *)

\* the i-th positional input of module m, as the interpreter sees it
ArgOf(prog, st, m, i) ==
  LET in == m.inputs[i] IN
  CASE in.k = "params" -> [kind |-> "value", present |-> TRUE, val |-> <<0>>, deltas |-> FALSE, store |-> ""]
    [] in.k = "source" -> [kind |-> "value", present |-> TRUE, val |-> <<0>>, deltas |-> FALSE, store |-> ""]
    [] in.k = "map"    -> [kind |-> "value", present |-> st.outs[in.v].present, val |-> st.outs[in.v].val, deltas |-> FALSE, store |-> ""]
    [] in.k = "store" /\ in.mode = "deltas" ->
                          [kind |-> "value", present |-> st.stores[in.v].ran, val |-> <<>>, deltas |-> TRUE, store |-> in.v]
    [] in.k = "store"  -> [kind |-> "store", present |-> FALSE, val |-> <<>>, deltas |-> FALSE, store |-> in.v]

\* reads of an input store at this block (the store module ran earlier in the same block or not at all)
StoreRead(prog, st, name, how, ord, key) ==
  LET s == st.stores[name]  pol == ModByName(prog, name).body.pol IN
  VisibleOpt(pol,
    CASE how = "first" -> Lookup(s.pre, key)
      [] how = "at"    -> GetAt(pol, VMKeys, s.pre, s.ops, ord, key)
      [] OTHER         -> Lookup(s.post, key))

RECURSIVE EvalTerms(_, _, _, _, _, _)
EvalTerms(prog, st, m, blk, ts, i) ==
  IF i > Len(ts) THEN 0
  ELSE LET t == ts[i]
           arg == IF t.t \in {"in", "dcount", "dsum", "get", "has"} /\ t.i + 1 \in DOMAIN m.inputs THEN ArgOf(prog, st, m, t.i + 1)
                  ELSE [kind |-> "none", present |-> FALSE, val |-> <<>>, deltas |-> FALSE, store |-> ""]
           v ==
             CASE t.t = "const"  -> t.c
               [] t.t = "num"    -> t.c * blk.num
               [] t.t = "branch" -> t.c * blk.branch
               [] t.t = "in"     -> IF arg.kind = "value" /\ arg.present /\ ~arg.deltas /\ arg.val # <<>> THEN t.c * arg.val[1] ELSE 0
               [] t.t = "dcount" -> IF arg.deltas /\ arg.present THEN t.c * Len(st.stores[arg.store].deltas) ELSE 0
               [] t.t = "dsum"   -> IF arg.deltas /\ arg.present
                                    THEN LET ds == st.stores[arg.store].deltas
                                             pol == ModByName(prog, arg.store).body.pol
                                             RECURSIVE S(_)
                                             S(j) == IF j > Len(ds) THEN 0
                                                     ELSE (IF ds[j].new = None THEN 0 ELSE t.c * NumOf(t.num, Visible(pol, ds[j].new[1]))) + S(j + 1)
                                         IN S(1)
                                    ELSE 0
               [] t.t = "get"    -> IF arg.kind = "store"
                                    THEN LET r == StoreRead(prog, st, arg.store, t.how, t.ord, t.key) IN
                                         IF r = None THEN 0 ELSE t.c * NumOf(t.num, r[1])
                                    ELSE 0
               [] t.t = "has"    -> IF arg.kind = "store" /\ StoreRead(prog, st, arg.store, t.how, t.ord, t.key) # None THEN t.c ELSE 0
               [] OTHER          -> 0
       IN v + EvalTerms(prog, st, m, blk, ts, i + 1)

------------------------------------------------------------------------
(* does module m execute at this block?  (baseexec.go: getWasmArgumentValues / canSkipExecution,  *)
(* module_executor.go: skipFromIndex, RunsOnBlock)                                               *)
IsClock(in) == in.k = "source" /\ in.v = "sf.substreams.v1.Clock"
ValueInputs(m) == {i \in DOMAIN m.inputs : m.inputs[i].k \in {"source", "map"} \/ (m.inputs[i].k = "store" /\ m.inputs[i].mode = "deltas")}
InputPresent(prog, st, m, i) == ArgOf(prog, st, m, i).present

\* value inputs are keyed BY NAME in the real argument map: two inputs with the same name count once
ValueNames(m) == {m.inputs[i].v : i \in ValueInputs(m)}

HasInput(prog, st, m) ==
  \* "single params input" is evaluated on the argument list, which for a STORE also holds its writer: a params-only
  \* store therefore never executes (in any mode); a params-only mapper executes on every block
  \/ (Len(m.inputs) = 1 /\ m.inputs[1].k = "params" /\ m.kind # "store")
  \/ ((\E i \in ValueInputs(m) : IsClock(m.inputs[i])) /\ Cardinality(ValueNames(m)) = 1)
  \/ \E i \in ValueInputs(m) : ~IsClock(m.inputs[i]) /\ InputPresent(prog, st, m, i)

FilterPasses(st, m) ==
  m.filter = <<>> \/ (LET o == st.outs[m.filter[1]] IN o.present /\ EvalKeys(m.filter[2], {o.val[i] : i \in DOMAIN o.val}))

Runs(prog, st, m, blk) == blk.num >= m.init /\ FilterPasses(st, m) /\ HasInput(prog, st, m)

------------------------------------------------------------------------
(* one module at one block *)
StoreOps(prog, st, m, blk) ==
  LET b == m.body
      mk(o) == IF o.op = "del" THEN [op |-> "del", ord |-> o.ord, key |-> o.pfx, val |-> 0, tag |-> ""]
               ELSE LET v == EvalTerms(prog, st, m, blk, o.val, 1) IN
                    [op |-> "w", ord |-> o.ord, key |-> VMKeys[((o.base + o.step * blk.num) % 4) + 1],
                     val |-> IF Numeric(b.pol) THEN v ELSE ToString(v) \o ";", tag |-> o.tag]
      act == SelectSeq(b.ops, LAMBDA o : Holds(o.when, blk.num))
  IN [i \in DOMAIN act |-> mk(act[i])]

ExecModule(prog, st, m, blk) ==
  LET run == Runs(prog, st, m, blk) IN
  IF m.kind = "store" THEN
    LET pre == st.kv[m.name]
        ops == IF run THEN StoreOps(prog, st, m, blk) ELSE <<>>
        f == Flush(m.body.pol, VMKeys, pre, ops) IN
    [st EXCEPT !.kv[m.name] = f.kv,
               !.stores[m.name] = [pre |-> pre, post |-> f.kv, deltas |-> f.deltas, ops |-> ops, ran |-> run]]
  ELSE IF m.kind = "index" THEN
    LET ks == SelectSeq(m.body.keys, LAMBDA k : Holds(k.when, blk.num)) IN
    [st EXCEPT !.outs[m.name] = [present |-> run, val |-> IF run THEN [i \in DOMAIN ks |-> ks[i].key] ELSE <<>>, ran |-> run]]
  ELSE
    LET emits == run /\ Holds(m.body.emit, blk.num)
        val == IF emits THEN <<EvalTerms(prog, st, m, blk, m.body.terms, 1)>> ELSE <<>> IN
    [st EXCEPT !.outs[m.name] = [present |-> run /\ ~(m.body.skipEmpty /\ val = <<>>), val |-> val, ran |-> run]]

\* execution order: the program is given in dependency order
RECURSIVE ExecAll(_, _, _, _)
ExecAll(prog, st, blk, i) == IF i > Len(prog) THEN st ELSE ExecAll(prog, ExecModule(prog, st, prog[i], blk), blk, i + 1)

StoreNames(prog) == {prog[i].name : i \in {j \in DOMAIN prog : prog[j].kind = "store"}}
OutNames(prog) == {prog[i].name : i \in {j \in DOMAIN prog : prog[j].kind # "store"}}

BlankBlockState(prog, kv) ==
  [kv |-> kv,
   stores |-> [n \in StoreNames(prog) |-> [pre |-> kv[n], post |-> kv[n], deltas |-> <<>>, ops |-> <<>>, ran |-> FALSE]],
   outs |-> [n \in OutNames(prog) |-> [present |-> FALSE, val |-> <<>>, ran |-> FALSE]]]

StepBlock(prog, kv, blk) == ExecAll(prog, BlankBlockState(prog, kv), blk, 1)

EmptyStores(prog) == [n \in StoreNames(prog) |-> EmptyKV]

\* SeqExec over a chain (sequence of blocks): sequence of per-block results [blk, kv (after the block), outs, stores]
RECURSIVE RunChainFrom(_, _, _, _)
RunChainFrom(prog, kv, chain, i) ==
  IF i > Len(chain) THEN <<>>
  ELSE LET s == StepBlock(prog, kv, chain[i]) IN
       <<[blk |-> chain[i], kv |-> s.kv, outs |-> s.outs, stores |-> s.stores]>> \o RunChainFrom(prog, s.kv, chain, i + 1)
RunChain(prog, chain) == RunChainFrom(prog, EmptyStores(prog), chain, 1)

\* the payload a client must see for the output module at one executed block: <<>> (empty) or <<v>>
PayloadOf(res, out) == res.outs[out].val
=============================================================================
