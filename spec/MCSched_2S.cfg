CONSTANTS KindsC <- K2S
 NSeg = 4
 MapFirstC = 0
 WorkersC = 3
 StartSegC = 3
 CacheMode = "prefix"
SPECIFICATION Spec
INVARIANT NoInvalidState
INVARIANT JobInputsComplete
INVARIANT NoFailure
INVARIANT MergeOnceInOrder
INVARIANT WorkersConsistent
INVARIANT OutcomeOK
PROPERTY Terminates
CHECK_DEADLOCK FALSE
