CONSTANTS Segs = {2, 3, 5}
 Inits = {0, 3, 7}
 Outs = {0, 5}
 MaxS = 16
 MaxE = 20
 Libs = {99, 0, 4, 9, 14, 22}
 MaxStores = 2
INIT Init
NEXT Next
INVARIANT PlanOK
CHECK_DEADLOCK FALSE
