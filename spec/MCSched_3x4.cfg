CONSTANTS KindsC <- K3
 NSeg = 4
 MapFirstC = 2
 WorkersC = 3
 StartSegC = 2
 CacheMode = "prefix"
SPECIFICATION Spec
INVARIANT NoInvalidState
INVARIANT JobInputsComplete
INVARIANT NoFailure
INVARIANT MergeOnceInOrder
INVARIANT WorkersConsistent
INVARIANT OutcomeOK
PROPERTY Terminates
CHECK_DEADLOCK FALSE
