CONSTANTS Inits = {0, 5}
 MaxN = 3
INIT Init
NEXT Next
INVARIANT GraphOK
CHECK_DEADLOCK FALSE
