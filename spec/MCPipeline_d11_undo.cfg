CONSTANTS MaxH = 5
 Branches = {"a", "b"}
 StartC = 3
 MaxReorgs = 3
SPECIFICATION Spec
INVARIANT NoBadMessage
CHECK_DEADLOCK FALSE
