CONSTANTS KindsC <- K3
 NSeg = 3
 MapFirstC = 0
 WorkersC = 2
 StartSegC = 0
 CacheMode = "partials"
SPECIFICATION Spec
INVARIANT NoInvalidState
INVARIANT MergeOnceInOrder
INVARIANT WorkersConsistent
PROPERTY Terminates
CHECK_DEADLOCK FALSE
