--------------------------------- MODULE Job ---------------------------------
(* One tier2 segment job: transcription of service/tier2.go GetExecutionPlan (what must run, what must be     *)
(* written, whether the job can be skipped) and of what the job leaves behind (OnStreamTerminated: cached      *)
(* outputs of the modules it ran, store snapshots of StoresToWrite: partial for the stores of its own stage,  *)
(* full for the stores of lower stages).                                                                      *)
(*                                                                                                            *)
(* mods : sequence of [name, kind \in {"map","store","index"}, stage]   (every module starts before the       *)
(*        segment; block numbers are abstracted away: a file is [mod, kind])                                  *)
(* files: set of [mod, kind] with kind \in {"output","index","kv","partial"}: the files of THIS segment       *)
(*        (kv = full snapshot at the segment end, partial = partial snapshot over the segment)                *)
EXTENDS Integers, Sequences, FiniteSets

File(m, k) == [mod |-> m, kind |-> k]
Used(mods, k) == {i \in DOMAIN mods : mods[i].stage <= k}

\* GetExecutionPlan(stage k): [skip, required, toWrite (stores), writers (modules whose output / index file is written)]
Plan(mods, out, nstages, files, k) ==
  LET U == Used(mods, k)
      Nm(i) == mods[i].name
      hasOut(i) == File(Nm(i), "output") \in files
      hasIdx(i) == File(Nm(i), "index") \in files
      snap(i) == File(Nm(i), "kv") \in files \/ File(Nm(i), "partial") \in files
      toWrite == {Nm(i) : i \in {j \in U : mods[j].kind = "store" /\ ~snap(j)}}
      required == {Nm(i) : i \in {j \in U : \/ (mods[j].kind = "index" /\ ~hasIdx(j))
                                            \/ (mods[j].kind = "map" /\ ~hasOut(j))
                                            \/ (mods[j].kind = "store" /\ (~hasOut(j) \/ ~snap(j)))}}
      outExists == k = nstages - 1 /\ File(out, "output") \in files
      skip == (outExists /\ toWrite = {}) \/ required = {}     \* (processRange also returns at once when nothing is required)
      writers == {Nm(i) : i \in {j \in U : Nm(j) \in required /\
                                           (IF mods[j].kind = "index" THEN ~hasIdx(j) ELSE ~hasOut(j))}}
  IN [skip |-> skip, required |-> required, toWrite |-> toWrite, writers |-> writers]

\* the plan as the code before the repair 6ede1d13 computed it: skipped as soon as the output module's file exists
OldPlan(mods, out, nstages, files, k) ==
  LET p == Plan(mods, out, nstages, files, k) IN
  [p EXCEPT !.skip = (k = nstages - 1 /\ File(out, "output") \in files)]

\* files after a successful job that follows plan p
After(mods, files, k, p) ==
  IF p.skip THEN files
  ELSE files
       \cup {File(mods[i].name, IF mods[i].kind = "index" THEN "index" ELSE "output") : i \in {j \in DOMAIN mods : mods[j].name \in p.writers}}
       \cup {File(mods[i].name, IF mods[i].stage = k THEN "partial" ELSE "kv") : i \in {j \in DOMAIN mods : mods[j].name \in p.toWrite}}

\* the contract the scheduler relies on when it receives MsgJobSucceeded for (segment, stage k)
Contract(mods, out, nstages, before, after, k) ==
  /\ before \subseteq after
  /\ \A i \in Used(mods, k) : mods[i].kind = "store" =>
        File(mods[i].name, "kv") \in after \/ File(mods[i].name, "partial") \in after
  /\ k = nstages - 1 => File(out, "output") \in after
=============================================================================
