CONSTANTS MaxH = 8
 Branches = {"a", "b", "c"}
 StartC = 1
 MaxReorgs = 5
SPECIFICATION Spec
INVARIANT NoBadMessage
INVARIANT ClientIsCanonical
CHECK_DEADLOCK FALSE
