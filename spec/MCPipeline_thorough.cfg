CONSTANTS MaxH = 9
 Branches = {"a", "b", "c"}
 StartC = 1
 MaxReorgs = 6
SPECIFICATION Spec
INVARIANT NoBadMessage
INVARIANT ClientIsCanonical
CHECK_DEADLOCK FALSE
