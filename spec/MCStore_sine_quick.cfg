CONSTANTS Pol = "sine"
 Ords = {0, 1}
 Prefixes = {"", "a", "ab"}
 MaxOps = 2
 CheckReads = FALSE
 AnyPre = FALSE
 MaxBlocks = 2
INIT Init
NEXT Next
INVARIANT MergedEqualsSequential
INVARIANT ActionChecks
INVARIANT SizeExact
CHECK_DEADLOCK FALSE
