CONSTANTS MaxSz = 8
 MaxInit = 20
 MaxEnd = 30
 MaxPt = 8
 MaxChunk = 5
INIT Init
NEXT Next
INVARIANT CaseOK
CHECK_DEADLOCK FALSE
