------------------------------- MODULE Plan -------------------------------
(* Request resolution and planning (pipeline/resolve.go, orchestrator/plan/requestplan.go).  *)
(* Reference operators transcribed from the code, and the C12 coverage predicates stated over *)
(* (configuration, resolved start S, hand-off H, gate, plan ranges) so that they judge the     *)
(* values OBSERVED from pipeline.BuildRequestDetails and plan.BuildTier1RequestPlan.           *)
(* Ranges are <<start, end>> or <<>> (absent).  Stop block 0 means "no end".                  *)
EXTENDS Integers, Sequences, FiniteSets

Min(a, b) == IF a < b THEN a ELSE b
Max(a, b) == IF a > b THEN a ELSE b
SetMin(S) == CHOOSE x \in S : \A y \in S : x <= y
Floor(n, seg) == n - (n % seg)
Ceil(n, seg)  == IF n % seg = 0 THEN n ELSE n - (n % seg) + seg

------------------------------------------------------------------------
(* reference: lowest block at which some store must start gathering state, if any store starts below S *)
StateRequiredAt(stores, S) ==
  LET below == {stores[i] : i \in DOMAIN stores} \cap 0..(S - 1) IN
  IF below = {} THEN <<>> ELSE <<SetMin(below)>>

(* reference: computeLinearHandoffBlockNum *)
Handoff(prod, S, E, libok, lib, sra, seg) ==
  LET stateRequired == sra # <<>> IN
  IF prod THEN
    IF ~libok THEN Ceil(E, seg)                      \* (E = 0 is an error, handled by the caller)
    ELSE IF E = 0 \/ lib < E THEN
           (IF ~stateRequired /\ S > Floor(lib, seg) THEN S ELSE Floor(lib, seg))
    ELSE Ceil(E, seg)
  ELSE
    IF ~stateRequired THEN S
    ELSE IF sra[1] > Floor(S, seg) THEN sra[1]
    ELSE IF ~libok \/ Floor(S, seg) <= lib THEN Floor(S, seg)
    ELSE Floor(lib, seg)

------------------------------------------------------------------------
(* C12 predicates on observed values.  c = configuration, o = observation (accepted request) *)

StoresBelow(c, H) == {c.stores[i] : i \in DOMAIN c.stores} \cap 0..(H - 1)

\* stores are built exactly up to the hand-off
BuildOK(c, o) ==
  IF StoresBelow(c, o.H) = {} THEN o.build = <<>>
  ELSE o.build = <<SetMin({c.stores[i] : i \in DOMAIN c.stores}), o.H>>

\* cached outputs are read for [S, min(H, E)) (production), nothing is read in development mode
ReadOK(c, o) ==
  IF c.prod /\ o.S < o.H
  THEN /\ o.read = <<o.S, IF c.stop = 0 THEN o.H ELSE Min(o.H, c.stop)>>
       /\ o.write # <<>> /\ o.write[2] = o.H
       /\ o.write[1] <= o.S
       /\ o.write[1] % c.seg = 0 \/ o.write[1] = o.lowestInit                 \* starts on a boundary or at the lowest initial block
       /\ o.write[1] \div c.seg = Max(o.S, o.lowestInit) \div c.seg          \* in the segment of the start block
  ELSE o.read = <<>> /\ (~c.prod => o.write = <<>>)

\* linear processing covers [H, E) with outputs gated at the start block
LinearOK(c, o) ==
  /\ IF c.stop = 0 \/ o.H < c.stop THEN o.linear = <<o.H, c.stop>> ELSE o.linear = <<>>
  /\ o.gate = Max(o.S, o.H)

\* no gap, no overlap: [S, E) = read ++ linear(gated)
CoverOK(c, o) ==
  /\ (~c.prod) => o.H <= o.S                         \* development mode never serves from cached outputs
  /\ (o.read # <<>>) => (o.read[1] = o.S /\ (o.linear # <<>> => o.read[2] = o.linear[1]))
  /\ (o.read = <<>> /\ o.linear # <<>>) => o.linear[1] <= o.S
  /\ (o.read = <<>> /\ o.linear = <<>>) => FALSE     \* something must serve the request

\* every range handed to segment jobs is made of whole segments
WholeSegmentsOK(c, o) ==
  (o.build # <<>> \/ o.write # <<>>) => o.H % c.seg = 0

\* the hand-off never exceeds what back-filling can reach (development mode: not above a known final block boundary... informational)
========================================================================
