----------------------------- MODULE TracePlan -----------------------------
(* C12 trace validation: every record = one configuration pushed through the real request     *)
(* resolution and planning code in tier1's order; the predicates of Plan.tla judge the         *)
(* observed details/plan/error.                                                                 *)
EXTENDS Plan, TLC, Json, IOUtils

Trace == ndJsonDeserialize(IOEnv.VERIF_TRACE)
VARIABLES l, bad, drift
vars == <<l, bad, drift>>
F(cond, sig) == IF cond THEN <<>> ELSE <<sig>>

HasCursor(c) == c.cstep # ""

\* expected resolved start (property statement): plain start, or from the cursor
CursorFinal(c) == c.cblock = c.clib     \* cursor on a final block (bstream Cursor.IsOnFinalBlock)
ExpectedStart(c) ==
  IF ~HasCursor(c) THEN c.start
  ELSE IF CursorFinal(c) THEN c.cblock + 1
  ELSE IF c.rans = "junction" /\ c.rjunction # c.cblock THEN c.rjunction + 1       \* forked: restart right after the junction
  ELSE IF c.cstep = "undo" THEN c.cblock ELSE c.cblock + 1

ForkedCursor(c) == HasCursor(c) /\ ~CursorFinal(c) /\ c.clib <= c.cblock /\ c.rans = "junction" /\ c.rjunction # c.cblock
                   /\ ~(c.stop > 0 /\ c.stop < c.cblock)

\* requests that cannot be served
Impossible(c, S) ==
  \/ S < c.out                                   \* before the output module exists
  \/ (c.stop # 0 /\ S = c.stop)                  \* empty range
  \/ (HasCursor(c) /\ c.stop > 0 /\ c.stop < c.cblock)
  \/ (HasCursor(c) /\ ~CursorFinal(c) /\ c.clib > c.cblock)
  \/ (HasCursor(c) /\ ~CursorFinal(c) /\ c.rans = "err")
  \/ (c.prod /\ ~c.libok /\ c.stop = 0)          \* production, unbounded, no final block known

\* the segmenters derived from the plan: the scheduler hands out jobs by iterating over the back-process segmenter, which must
\* span every segment of the stores to build and of the outputs to write (and these two are the segments of their ranges)
SegmentersOK(c, r) ==
  /\ (r.build # <<>>) => r.storesSeg = <<r.build[1] \div c.seg, (r.build[2] - 1) \div c.seg>>
  /\ (r.write # <<>>) => r.writeSeg = <<r.write[1] \div c.seg, (r.write[2] - 1) \div c.seg>>
  /\ (r.build # <<>> \/ r.write # <<>>) =>
        /\ Len(r.backSeg) = 2
        /\ (r.build # <<>> => r.backSeg[1] <= r.storesSeg[1] /\ r.backSeg[2] >= r.storesSeg[2])
        /\ (r.write # <<>> => r.backSeg[1] <= r.writeSeg[1] /\ r.backSeg[2] >= r.writeSeg[2])

Fails(r) ==
  LET c == r.cfg IN
  IF r.panic # "" THEN <<"C12:panic">>
  ELSE IF c.stop # 0 /\ ExpectedStart(c) > c.stop THEN <<>>     \* start above stop: outside the stated space
  ELSE IF ~r.accepted THEN
     \* an error is acceptable only for an impossible request (a spurious rejection loses part of the requested range)
     F(Impossible(c, ExpectedStart(c)), "C12:possible_request_rejected")
  ELSE
     F(~Impossible(c, ExpectedStart(c)), "C12:impossible_request_accepted")
  \o F(r.S = ExpectedStart(c), "C12:resolved_start")
  \o F(ForkedCursor(c) <=> (r.undo # <<>>), "C12:undo_signal_iff_forked_cursor")
  \o F(r.undo # <<>> => r.undo[1] = c.rjunction, "C12:undo_signal_designates_junction")
  \o F(BuildOK(c, r), "C12:stores_built_exactly_to_handoff")
  \o F(ReadOK(c, r), "C12:cached_outputs_range")
  \o F(LinearOK(c, r), "C12:linear_range_and_gate")
  \o F(CoverOK(c, r), "C12:gap_or_overlap")
  \o F(WholeSegmentsOK(c, r), "C12:handoff_not_segment_boundary_with_backfill")
  \o F(SegmentersOK(c, r), "C12:backprocess_segmenter_misses_a_segment_to_process")

DriftOf(r) ==
  LET c == r.cfg IN
  IF r.panic = "" /\ r.accepted /\ ~(c.prod /\ ~c.libok /\ c.stop = 0)
  THEN r.H # Handoff(c.prod, r.S, c.stop, c.libok, c.lib, StateRequiredAt(c.stores, r.S), c.seg)
  ELSE FALSE

Init == l = 1 /\ bad = <<>> /\ drift = <<>>
Next ==
  /\ l <= Len(Trace)
  /\ LET r == Trace[l]  f == Fails(r) IN
       /\ bad' = IF f = <<>> THEN bad ELSE Append(bad, [i |-> l, why |-> f])
       /\ drift' = IF DriftOf(r) THEN Append(drift, l) ELSE drift
  /\ l' = l + 1
Done == l = Len(Trace) + 1
WriteVerdict == Done => JsonSerialize(IOEnv.VERIF_OUT, [n |-> Len(Trace), bad |-> bad, drift |-> drift])
===========================================================================
