----------------------------- MODULE MCStore -----------------------------
(* Design-level exhaustive model of the store family (C02 C08 C09 C11): every block   *)
(* of at most MaxOps operations over the key/value/ordinal alphabet, every placement   *)
(* of cuts (partial saved + merged), undo of the last block.  The implementation's     *)
(* WAY of answering (reads by walking the deltas backwards, incremental size           *)
(* accounting, merge through setKV/setNewKV) is transcribed next to the property-level *)
(* definitions of Store.tla and the two are required to agree in every reachable state.*)
EXTENDS Store
CONSTANTS Pol, Ords, Prefixes, MaxOps, MaxBlocks, CheckReads, AnyPre
Vals == IF Pol \in {"set", "sine", "append"} THEN {"x", "yy"} ELSE {-1, 2}
Tags == IF Pol = "set_sum" THEN {"set", "sum"} ELSE {""}
KeySeq == <<"a", "ab", "b">>

VARIABLES seq, part, merged,   \* contents: sequential store, current partial, merged store
          sz, msz, psz,        \* sizes as the implementation accounts them
          prev, lastDeltas,    \* pre-content and deltas of the last block (for undo)
          ok,                  \* conjunction of the per-action checks of the last action
          nblocks, canUndo
vars == <<seq, part, merged, sz, msz, psz, prev, lastDeltas, ok, nblocks, canUndo>>

Keys == {KeySeq[i] : i \in DOMAIN KeySeq}
WriteOps == [op : {"w"}, ord : Ords, key : Keys, val : Vals, tag : Tags]
DelOps   == [op : {"del"}, ord : Ords, key : Prefixes, val : {0}, tag : {""}]
Alphabet == WriteOps \cup DelOps
OpSeqs == UNION { [1..n -> Alphabet] : n \in 1..MaxOps }

------------------------------------------------------------------------
(* transcription of value_get.go: reads answered from kv (all deltas applied) + deltas *)
NoDelta == <<"no", "delta">>
RECURSIVE LastFromDeltas(_, _, _)
LastFromDeltas(ds, i, k) ==     \* getLast: newest delta of k decides, else NoDelta
  IF i = 0 THEN NoDelta
  ELSE IF ds[i].key = k THEN (IF ds[i].op = "D" THEN None ELSE ds[i].new)
  ELSE LastFromDeltas(ds, i - 1, k)
ImplGetLast(kv, ds, k) == LET r == LastFromDeltas(ds, Len(ds), k) IN IF r = NoDelta THEN Lookup(kv, k) ELSE r

RECURSIVE FirstFromDeltas(_, _, _)
FirstFromDeltas(ds, i, k) ==
  IF i > Len(ds) THEN NoDelta
  ELSE IF ds[i].key = k THEN (IF ds[i].op = "C" THEN None ELSE ds[i].old)
  ELSE FirstFromDeltas(ds, i + 1, k)
ImplGetFirst(kv, ds, k) == LET r == FirstFromDeltas(ds, 1, k) IN IF r = NoDelta THEN Lookup(kv, k) ELSE r

RECURSIVE RewindTo(_, _, _, _, _)
RewindTo(cur, ds, i, ord, k) ==   \* getAt: walk back while delta.ord > ord
  IF i = 0 \/ ds[i].ord <= ord THEN cur
  ELSE RewindTo(IF ds[i].key # k THEN cur ELSE IF ds[i].op = "C" THEN None ELSE ds[i].old, ds, i - 1, ord, k)
ImplGetAt(kv, ds, ord, k) == RewindTo(ImplGetLast(kv, ds, k), ds, Len(ds), ord, k)
\* HasAt as repaired (fix: seeded from the last value like getAt)
ImplHasAt(kv, ds, ord, k) == ImplGetAt(kv, ds, ord, k) # None

ReadsOK(pre, ops, post, ds) ==
  \A k \in Keys :
    /\ ImplGetFirst(post, ds, k) = GetFirst(pre, k)
    /\ ImplGetLast(post, ds, k) = GetLast(Pol, KeySeq, pre, ops, k)
    /\ \A o \in Ords \cup {SetMin(Ords) + Cardinality(Ords)} :
         /\ ImplGetAt(post, ds, o, k) = GetAt(Pol, KeySeq, pre, ops, o, k)
         /\ ImplHasAt(post, ds, o, k) = (GetAt(Pol, KeySeq, pre, ops, o, k) # None)

------------------------------------------------------------------------
(* transcription of merge.go size accounting: setKV vs setNewKV *)
MergeSize(full, fsz, p) ==
  LET dels == {k \in DOMAIN full : \E i \in DOMAIN p.del : HasPrefix(k, p.del[i])}
      base == Restrict(full, (DOMAIN full) \ dels)
      bsz  == fsz - SumOver(Pol, full, dels)
      res  == Merge(Pol, full, p)
      \* keys written by the policy branch: all partial keys except set_if_not_exists on existing keys
      written == {k \in DOMAIN p.kv : ~(Pol = "sine" /\ k \in DOMAIN base)}
      RECURSIVE Acc(_, _)
      Acc(S, s) == IF S = {} THEN s ELSE
        LET k == CHOOSE x \in S : TRUE IN
          Acc(S \ {k}, IF k \in DOMAIN base THEN s - VLen(Pol, base[k]) + VLen(Pol, res[k])      \* setKV on existing
                       ELSE s + Len(k) + VLen(Pol, res[k]))                                      \* setKV / setNewKV on new
  IN Acc(written, bsz)

------------------------------------------------------------------------
StoredVals == IF Pol = "set_sum" THEN Tags \X Vals ELSE Vals
AllContents == UNION { [S -> StoredVals] : S \in SUBSET Keys }
Init ==
  /\ seq \in (IF AnyPre THEN AllContents ELSE {EmptyKV})
  /\ part = EmptyPart /\ merged = seq
  /\ sz = ActualSize(Pol, seq) /\ msz = sz /\ psz = 0
  /\ prev = EmptyKV /\ lastDeltas = <<>> /\ ok = TRUE /\ nblocks = 0 /\ canUndo = FALSE

Block(ops) ==
  /\ nblocks < MaxBlocks
  /\ LET f == Flush(Pol, KeySeq, seq, ops)
         pf == Flush(Pol, KeySeq, part.kv, ops) IN
       /\ seq' = f.kv
       /\ prev' = seq
       /\ lastDeltas' = f.deltas
       /\ sz' = SizeAfterDeltas(Pol, sz, f.deltas)
       /\ part' = PartFlush(Pol, KeySeq, part, ops)
       /\ psz' = SizeAfterDeltas(Pol, psz, pf.deltas)
       /\ ok' = /\ DeltaChainOK(seq, f.deltas)
                /\ ApplyDeltas(seq, f.deltas) = f.kv
                /\ (CheckReads => ReadsOK(seq, ops, f.kv, f.deltas))
  /\ nblocks' = nblocks + 1
  /\ canUndo' = TRUE
  /\ UNCHANGED <<merged, msz>>

Cut ==
  /\ nblocks > 0
  /\ merged' = Merge(Pol, merged, part)
  /\ msz' = MergeSize(merged, msz, part)
  /\ part' = EmptyPart /\ psz' = 0
  /\ ok' = TRUE
  /\ canUndo' = FALSE      \* back-filled segments are final: no undo across a cut in this model
  /\ UNCHANGED <<seq, sz, prev, lastDeltas, nblocks>>

Undo ==
  /\ canUndo /\ part.del = <<>> /\ part.kv = seq   \* only in the linear phase model: partial unused
  /\ FALSE

UndoLinear ==   \* reorg in the linear phase: reverse the last block on the sequential store
  /\ canUndo
  /\ seq' = ReverseDeltas(seq, lastDeltas)
  /\ sz' = SizeAfterReverse(Pol, sz, lastDeltas)
  /\ ok' = (ReverseDeltas(seq, lastDeltas) = prev)
  /\ canUndo' = FALSE
  /\ lastDeltas' = <<>>
  /\ part' = EmptyPart /\ psz' = 0 /\ merged' = ReverseDeltas(seq, lastDeltas) /\ msz' = SizeAfterReverse(Pol, sz, lastDeltas)
  /\ UNCHANGED <<prev, nblocks>>

Next == (\E ops \in OpSeqs : Block(ops)) \/ Cut \/ UndoLinear

Spec == Init /\ [][Next]_vars

------------------------------------------------------------------------
MergedEqualsSequential == VisibleKV(Pol, Merge(Pol, merged, part)) = VisibleKV(Pol, seq)      \* C02
ActionChecks == ok                                                                             \* C08 (+ undo restores)
SizeExact == /\ sz = ActualSize(Pol, seq)                                                      \* C11
             /\ msz = ActualSize(Pol, merged)
             /\ psz = ActualSize(Pol, part.kv)
==========================================================================
