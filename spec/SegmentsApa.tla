---------------------------- MODULE SegmentsApa ----------------------------
(* The per-segment tiling facts of C13 for SYMBOLIC initial block, end block and segment index (Apalache, SMT):  *)
(* for a fixed segment size every segment of [init, end) is non-empty, lies inside the range, starts where the   *)
(* previous one ends, is aligned on the segment size except at the two ends, and the index functions map its     *)
(* first and last block back to its index.  The four operators are those of Segments.tla (FirstIndex, LastIndex, *)
(* SegRange); MCSegments checks with TLC that the two formulations agree on the enumerated space.               *)
EXTENDS Integers

CONSTANT
  \* @type: Int;
  Sz

VARIABLES
  \* @type: Int;
  init,
  \* @type: Int;
  end,
  \* @type: Int;
  i

AFirst == init \div Sz
ALast == (end - 1) \div Sz
\* @type: (Int) => Int;
RStart(k) == IF init > k * Sz THEN init ELSE k * Sz
\* @type: (Int) => Int;
REnd(k) == IF end < (k + 1) * Sz THEN end ELSE (k + 1) * Sz

CInit1 == Sz = 1
CInit2 == Sz = 2
CInit3 == Sz = 3
CInit5 == Sz = 5
CInit7 == Sz = 7
CInit10 == Sz = 10
CInit16 == Sz = 16
CInit100 == Sz = 100
CInit1000 == Sz = 1000

Init ==
  /\ init \in 0..100000
  /\ end \in 1..200000
  /\ init < end
  /\ i \in 0..200000
  /\ i >= AFirst /\ i <= ALast
Next == UNCHANGED <<init, end, i>>

Facts ==
  /\ RStart(i) < REnd(i)
  /\ RStart(i) >= init /\ REnd(i) <= end
  /\ REnd(i) - RStart(i) <= Sz
  /\ (i < ALast => REnd(i) = RStart(i + 1))
  /\ (i > AFirst => RStart(i) % Sz = 0)
  /\ (i < ALast => REnd(i) % Sz = 0)
  /\ (i = AFirst => RStart(i) = init)
  /\ (i = ALast => REnd(i) = end)
  /\ RStart(i) \div Sz = i
  /\ (REnd(i) - 1) \div Sz = i
\* a deliberately wrong fact: must be rejected (the check is not vacuous)
WrongFact == REnd(i) % Sz = 0
=============================================================================
