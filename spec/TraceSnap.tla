----------------------------- MODULE TraceSnap -----------------------------
(* C10: store snapshots round-trip through Save/Load and are found by block range.    *)
(* The abstract state is the set of snapshots saved so far in the current store        *)
(* directory; every "list" answer observed from Config.ListSnapshotFiles and every     *)
(* Save->Load round trip is judged against it.  Block numbers are pairs <<hi, lo>>     *)
(* (n = hi*100000 + lo) because TLC integers are 32-bit and ranges go to 10 digits.    *)
EXTENDS Integers, Sequences, FiniteSets, TLC, Json, IOUtils

Trace == ndJsonDeserialize(IOEnv.VERIF_TRACE)

VARIABLES l, bad, drift, files, init
vars == <<l, bad, drift, files, init>>

F(cond, sig) == IF cond THEN <<>> ELSE <<sig>>
Le(a, b) == a[1] < b[1] \/ (a[1] = b[1] /\ a[2] <= b[2])
Lt(a, b) == a[1] < b[1] \/ (a[1] = b[1] /\ a[2] < b[2])
SeqSet(s) == {s[i] : i \in DOMAIN s}
Key(f) == [start |-> f.start, end |-> f.end, partial |-> f.partial]

RoundTripFails(r) ==
  IF r.err # "" THEN <<"C10:unexpected_error">>
  ELSE
     F(r.loaded.kv = r.saved.kv, "C10:roundtrip_content")
  \o F(r.loaded.del = r.saved.del, "C10:roundtrip_deleted_prefixes")
  \o F(r.loaded.size = r.saved.actual, "C10:roundtrip_size")
  \o F(r.loaded.n = r.saved.n, "C10:roundtrip_entry_count")
  \o F(r.frange = <<r.start, r.end>> /\ r.fpartial = r.partial, "C10:file_info_range_kind")

ListFails(r) ==
  IF r.err # "" THEN <<"C10:unexpected_error">>
  ELSE LET got == {Key(r.got[i]) : i \in DOMAIN r.got} IN
     \* every saved snapshot that ends at or below `below` is listed, with the right kind
     F(\A f \in files : Le(f.end, r.below) => f \in got, "C10:listing_misses_snapshot")
     \* nothing is listed that was not saved (a .tmp leftover or a foreign file is never a snapshot)
  \o F(got \subseteq files, "C10:listing_invents_snapshot")
  \o F(Cardinality(got) = Len(r.got), "C10:listing_duplicates")

Fails(r) ==
  CASE r.ev = "roundtrip" -> RoundTripFails(r)
    [] r.ev = "list"      -> ListFails(r)
    [] OTHER              -> <<>>

\* listing is allowed to return more than the property demands (snapshots straddling `below`): report as drift info only
IsDrift(r) == FALSE

Init == l = 1 /\ bad = <<>> /\ drift = <<>> /\ files = {} /\ init = <<0, 0>>
Next ==
  /\ l <= Len(Trace)
  /\ LET r == Trace[l]  f == Fails(r) IN
       /\ bad' = IF f = <<>> THEN bad ELSE Append(bad, [i |-> l, why |-> f])
       /\ drift' = drift
       /\ CASE r.ev = "reset" -> files' = {} /\ init' = r.init
            [] r.ev = "roundtrip" ->
                 /\ files' = IF r.err = "" THEN files \cup {[start |-> r.start, end |-> r.end, partial |-> r.partial]} ELSE files
                 /\ UNCHANGED init
            [] r.ev = "saved" -> files' = files \cup {Key(r.files[i]) : i \in DOMAIN r.files} /\ UNCHANGED init
            [] OTHER -> UNCHANGED <<files, init>>
  /\ l' = l + 1

Done == l = Len(Trace) + 1
WriteVerdict ==
  Done => JsonSerialize(IOEnv.VERIF_OUT, [n |-> Len(Trace), bad |-> bad, drift |-> drift])
===========================================================================
