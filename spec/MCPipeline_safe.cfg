CONSTANTS MaxH = 7
 Branches = {"a", "b", "c"}
 StartC = 1
 MaxReorgs = 4
SPECIFICATION Spec
INVARIANT NoBadMessage
INVARIANT ClientIsCanonical
CHECK_DEADLOCK FALSE
