CONSTANTS N = 6
 MaxFiles = 4
INIT Init
NEXT Next
INVARIANT ListingComplete
CHECK_DEADLOCK FALSE
