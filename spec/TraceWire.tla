------------------------------ MODULE TraceWire ------------------------------
(* C18 trace validation: the bytes written by each encoder are decoded BY THE SPECIFICATION's     *)
(* byte-level decoder (independent of both Go codecs) and compared with the logged content; the   *)
(* cross-reading results of the Go decoders and the reported sizes are judged as well.            *)
EXTENDS Wire, Json, IOUtils
Trace == ndJsonDeserialize(IOEnv.VERIF_TRACE)
VARIABLES l, bad, drift
vars == <<l, bad, drift>>
F(cond, sig) == IF cond THEN <<>> ELSE <<sig>>
SeqSet(s) == {s[i] : i \in DOMAIN s}

RECURSIVE SumLens(_, _)
SumLens(kv, i) == IF i > Len(kv) THEN 0 ELSE Len(kv[i][1]) + Len(kv[i][2]) + SumLens(kv, i + 1)

StoreBytesOK(r, name) ==
  name \in DOMAIN r.enc =>
    LET d == DecodeStoreData(r.enc[name]) IN
      d.ok /\ d.kv = {<<r.kv[i][1], r.kv[i][2]>> : i \in DOMAIN r.kv} /\ d.n = Len(r.kv) /\ d.del = r.del

AllFlags(r, prefix) == \A f \in DOMAIN r.flags : (Len(f) >= Len(prefix) /\ SubSeq(f, 1, Len(prefix)) = prefix) => r.flags[f]

StoreFails(r) ==
  IF r.panic # "" THEN <<"C18:codec_panic">>
  ELSE
     F(AllFlags(r, "marshal_"), "C18:marshal_error")
  \o F(StoreBytesOK(r, "fast"), "C18:fast_store_bytes_do_not_decode_to_content")
  \o F(StoreBytesOK(r, "vt"), "C18:vt_store_bytes_do_not_decode_to_content")
  \o F(StoreBytesOK(r, "std"), "C18:oracle_disagrees_with_standard_encoder")
  \o F(AllFlags(r, "dec_"), "C18:store_decoder_misreads")
  \o F(AllFlags(r, "binary_"), "C18:binary_marshaller_roundtrip")
  \o F(\A s \in DOMAIN r.sizes : r.sizes[s] = SumLens(r.kv, 1) /\ r.sum = SumLens(r.kv, 1), "C18:reported_size")

ItemOf(j) == [num |-> j.num, id |-> j.id, payload |-> j.payload, cursor |-> j.cursor, hasTs |-> j.hasTs, secs |-> j.secs, nanos |-> j.nanos]
ArrayBytesOK(r, name) ==
  name \in DOMAIN r.enc =>
    LET d == DecodeArray(r.enc[name]) IN
      d.ok /\ d.n = Len(r.items) /\ d.items = {ItemOf(r.items[i]) : i \in DOMAIN r.items}

ArrayFails(r) ==
  IF r.panic # "" THEN <<"C18:codec_panic">>
  ELSE
     F(AllFlags(r, "marshal_"), "C18:marshal_error")
  \o F(ArrayBytesOK(r, "fast"), "C18:fast_output_bytes_do_not_decode_to_content")
  \o F(ArrayBytesOK(r, "std"), "C18:oracle_disagrees_with_standard_encoder")
  \o F(AllFlags(r, "dec_fast"), "C18:fast_output_decoder_misreads")
  \o F(AllFlags(r, "dec_std"), "C18:standard_decoder_misreads_fast_bytes")

Fails(r) == IF r.k = "store" THEN StoreFails(r) ELSE IF r.k = "array" THEN ArrayFails(r) ELSE <<"unknown_record">>

Init == l = 1 /\ bad = <<>> /\ drift = <<>>
Next ==
  /\ l <= Len(Trace)
  /\ LET r == Trace[l]  f == Fails(r) IN
       /\ bad' = IF f = <<>> THEN bad ELSE Append(bad, [i |-> l, why |-> f])
       /\ drift' = drift
  /\ l' = l + 1
Done == l = Len(Trace) + 1
WriteVerdict == Done => JsonSerialize(IOEnv.VERIF_OUT, [n |-> Len(Trace), bad |-> bad, drift |-> drift])
==============================================================================
