CONSTANTS KindsC <- K2
 NSeg = 3
 MapFirstC = 1
 WorkersC = 2
 StartSegC = 1
 CacheMode = "prefix"
SPECIFICATION Spec
INVARIANT NoInvalidState
INVARIANT JobInputsComplete
INVARIANT NoFailure
INVARIANT MergeOnceInOrder
INVARIANT WorkersConsistent
INVARIANT OutcomeOK
PROPERTY Terminates
CHECK_DEADLOCK FALSE
