CONSTANTS Inits = {0}
 MaxN = 4
INIT Init
NEXT Next
INVARIANT GraphOK
CHECK_DEADLOCK FALSE
