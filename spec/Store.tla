------------------------------ MODULE Store ------------------------------
(* Key-value stores of storage/store: per-block operation buffer with ordinals, Flush  *)
(* (stable sort + sequential application producing deltas), reads at ordinals, partial *)
(* stores (kv + deleted prefixes), Merge per update policy, ApplyDeltasReverse, the    *)
(* operation log (ReadOps/ApplyOps) and size accounting.                               *)
(*                                                                                     *)
(* Values are abstract TYPED values: strings for set / set_if_not_exists / append,     *)
(* integers for add / min / max, <<tag, n>> for set_sum (tag in {"set","sum"}).        *)
(* A kv is a function from the present keys to values; an optional value is <<>> or    *)
(* <<v>>.  K is the sorted sequence of all keys of the universe (TLC has no order on   *)
(* strings; it is only used to order the DELETE deltas of one delete_prefix).          *)
(* Pure operators only: the model-checking module MCStore and the trace specification  *)
(* TraceStore both use them.                                                           *)
EXTENDS Integers, Sequences, FiniteSets, TLC

None    == <<>>
Some(v) == <<v>>

HasPrefix(k, p) == Len(k) >= Len(p) /\ SubSeq(k, 1, Len(p)) = p

Lookup(kv, k) == IF k \in DOMAIN kv THEN Some(kv[k]) ELSE None
Put(kv, k, v) == [x \in (DOMAIN kv) \cup {k} |-> IF x = k THEN v ELSE kv[x]]
Del(kv, k)    == [x \in (DOMAIN kv) \ {k} |-> kv[x]]
Restrict(kv, S) == [x \in S |-> kv[x]]
EmptyKV == <<>>

\* operations: [op |-> "w" | "del", ord, key, val, tag]   (tag only for set_sum: "set" | "sum")
\* deltas:     [op |-> "C" | "U" | "D", ord, key, old, new]  (old/new optional values)

------------------------------------------------------------------------
(* stable sort by ordinal *)
SetMin(S) == CHOOSE x \in S : \A y \in S : x <= y
RECURSIVE SortByOrd(_, _)
SortByOrd(ops, ords) ==
  IF ords = {} THEN <<>>
  ELSE LET m == SetMin(ords) IN SelectSeq(ops, LAMBDA o : o.ord = m) \o SortByOrd(ops, ords \ {m})
StableSort(ops) == SortByOrd(ops, {ops[i].ord : i \in DOMAIN ops})

------------------------------------------------------------------------
(* one write under an update policy: the new value, or None when nothing is written *)
NewValue(pol, prev, o) ==
  LET found == prev # None
      p == IF found THEN prev[1] ELSE 0 IN
  CASE pol = "set"    -> Some(o.val)
    [] pol = "sine"   -> IF found THEN None ELSE Some(o.val)
    [] pol = "append" -> IF found THEN Some(p \o o.val) ELSE Some(o.val)
    [] pol = "add"    -> IF found THEN Some(p + o.val) ELSE Some(o.val)
    [] pol = "min"    -> IF found /\ p < o.val THEN Some(p) ELSE Some(o.val)
    [] pol = "max"    -> IF found /\ p > o.val THEN Some(p) ELSE Some(o.val)
    [] pol = "set_sum" -> IF ~found THEN Some(<<o.tag, o.val>>)
                          ELSE IF o.tag = "sum" THEN Some(<<p[1], p[2] + o.val>>)
                          ELSE Some(<<"set", o.val>>)

\* keys of kv having prefix p, in key order
RECURSIVE KeysWithPrefix(_, _, _)
KeysWithPrefix(K, kv, p) ==
  IF K = <<>> THEN <<>>
  ELSE (IF Head(K) \in DOMAIN kv /\ HasPrefix(Head(K), p) THEN <<Head(K)>> ELSE <<>>) \o KeysWithPrefix(Tail(K), kv, p)

ApplyOne(pol, K, st, o) ==
  IF o.op = "del" THEN
    LET ks == KeysWithPrefix(K, st.kv, o.key) IN
      [kv |-> Restrict(st.kv, (DOMAIN st.kv) \ {ks[i] : i \in DOMAIN ks}),
       deltas |-> st.deltas \o [i \in DOMAIN ks |-> [op |-> "D", ord |-> o.ord, key |-> ks[i], old |-> Some(st.kv[ks[i]]), new |-> None]]]
  ELSE
    LET prev == Lookup(st.kv, o.key)
        nv == NewValue(pol, prev, o) IN
      IF nv = None THEN st
      ELSE [kv |-> Put(st.kv, o.key, nv[1]),
            deltas |-> Append(st.deltas, [op |-> IF prev = None THEN "C" ELSE "U", ord |-> o.ord, key |-> o.key, old |-> prev, new |-> nv])]

RECURSIVE ApplyAll(_, _, _, _)
ApplyAll(pol, K, st, ops) == IF ops = <<>> THEN st ELSE ApplyAll(pol, K, ApplyOne(pol, K, st, Head(ops)), Tail(ops))

\* Flush: what one block does to a store content
Flush(pol, K, kv, ops) == ApplyAll(pol, K, [kv |-> kv, deltas |-> <<>>], StableSort(ops))

------------------------------------------------------------------------
(* reads after a flush, as the PROPERTY states them (from pre-content + operations) *)
OpsUpTo(ops, ord) == SelectSeq(StableSort(ops), LAMBDA o : o.ord <= ord)
GetFirst(kv, k)   == Lookup(kv, k)
GetLast(pol, K, kv, ops, k)    == Lookup(Flush(pol, K, kv, ops).kv, k)
GetAt(pol, K, kv, ops, ord, k) == Lookup(ApplyAll(pol, K, [kv |-> kv, deltas |-> <<>>], OpsUpTo(ops, ord)).kv, k)

(* the same reads, from the deltas alone (how the implementation answers them) *)
RECURSIVE ApplyDeltas(_, _)
ApplyDeltas(kv, ds) ==
  IF ds = <<>> THEN kv
  ELSE LET d == Head(ds) IN ApplyDeltas(IF d.op = "D" THEN Del(kv, d.key) ELSE Put(kv, d.key, d.new[1]), Tail(ds))

\* delta chain well-formed w.r.t. pre-content: each old value is the value just before it, op kinds consistent
RECURSIVE DeltaChainOK(_, _)
DeltaChainOK(kv, ds) ==
  IF ds = <<>> THEN TRUE
  ELSE LET d == Head(ds) IN
    /\ d.old = Lookup(kv, d.key)
    /\ (d.op = "C") <=> (d.old = None)
    /\ (d.op = "D") <=> (d.new = None)
    /\ DeltaChainOK(IF d.op = "D" THEN Del(kv, d.key) ELSE Put(kv, d.key, d.new[1]), Tail(ds))

RECURSIVE ReverseDeltas(_, _)
ReverseDeltas(kv, ds) ==   \* ApplyDeltasReverse: undo the deltas last-to-first
  IF ds = <<>> THEN kv
  ELSE LET d == ds[Len(ds)] IN
    ReverseDeltas(IF d.op = "C" THEN Del(kv, d.key) ELSE Put(kv, d.key, d.old[1]), SubSeq(ds, 1, Len(ds) - 1))

------------------------------------------------------------------------
(* partial stores: content computed from an empty store + the prefixes deleted so far *)
EmptyPart == [kv |-> EmptyKV, del |-> <<>>]

DelPrefixesOf(ops) == LET d == SelectSeq(ops, LAMBDA o : o.op = "del") IN [i \in DOMAIN d |-> d[i].key]
RECURSIVE AppendNew(_, _)
AppendNew(seen, ps) ==    \* PartialKV.DeletePrefix records each prefix once, in CALL order
  IF ps = <<>> THEN seen
  ELSE AppendNew(IF \E i \in DOMAIN seen : seen[i] = Head(ps) THEN seen ELSE Append(seen, Head(ps)), Tail(ps))

PartFlush(pol, K, part, ops) ==
  [kv |-> Flush(pol, K, part.kv, ops).kv, del |-> AppendNew(part.del, DelPrefixesOf(ops))]

\* Merge of the next segment's partial into a full store content
MergeValue(pol, prev, v) ==
  LET found == prev # None
      p == IF found THEN prev[1] ELSE 0 IN
  CASE pol = "set"    -> v
    [] pol = "sine"   -> IF found THEN p ELSE v
    [] pol = "append" -> IF found THEN p \o v ELSE v
    [] pol = "add"    -> IF found THEN p + v ELSE v
    [] pol = "min"    -> IF found /\ p < v THEN p ELSE v
    [] pol = "max"    -> IF found /\ p > v THEN p ELSE v
    [] pol = "set_sum" -> IF v[1] = "set" THEN <<"sum", v[2]>>
                          ELSE <<"sum", (IF found THEN p[2] ELSE 0) + v[2]>>

Merge(pol, full, part) ==
  LET kept == {k \in DOMAIN full : ~ \E i \in DOMAIN part.del : HasPrefix(k, part.del[i])}
      base == Restrict(full, kept) IN
  [k \in kept \cup DOMAIN part.kv |->
     IF k \in DOMAIN part.kv THEN MergeValue(pol, Lookup(base, k), part.kv[k]) ELSE base[k]]

\* client-visible value (set_sum tags are internal: reads strip them)
Visible(pol, v) == IF pol = "set_sum" THEN v[2] ELSE v
VisibleKV(pol, kv) == [k \in DOMAIN kv |-> Visible(pol, kv[k])]
VisibleOpt(pol, o) == IF o = None THEN None ELSE Some(Visible(pol, o[1]))

------------------------------------------------------------------------
(* sizes: Sigma len(key) + len(value); VLen is the encoded length of an abstract value *)
IntLen(n) == IF n < 0 THEN 1 + (IF -n < 10 THEN 1 ELSE IF -n < 100 THEN 2 ELSE 3)
             ELSE IF n < 10 THEN 1 ELSE IF n < 100 THEN 2 ELSE 3
VLen(pol, v) ==
  CASE pol \in {"set", "sine", "append"} -> Len(v)
    [] pol \in {"add", "min", "max"}     -> IntLen(v)
    [] pol = "set_sum"                   -> 4 + IntLen(v[2])
RECURSIVE SumOver(_, _, _)
SumOver(pol, kv, S) == IF S = {} THEN 0 ELSE LET k == CHOOSE x \in S : TRUE IN Len(k) + VLen(pol, kv[k]) + SumOver(pol, kv, S \ {k})
ActualSize(pol, kv) == SumOver(pol, kv, DOMAIN kv)

\* incremental accounting of ApplyDelta (base_store/delta.go)
RECURSIVE SizeAfterDeltas(_, _, _)
SizeAfterDeltas(pol, sz, ds) ==
  IF ds = <<>> THEN sz
  ELSE LET d == Head(ds) IN
    SizeAfterDeltas(pol,
      CASE d.op = "C" -> sz + Len(d.key) + VLen(pol, d.new[1])
        [] d.op = "U" -> sz + VLen(pol, d.new[1]) - VLen(pol, d.old[1])
        [] d.op = "D" -> sz - Len(d.key) - VLen(pol, d.old[1]),
      Tail(ds))
RECURSIVE SizeAfterReverse(_, _, _)
SizeAfterReverse(pol, sz, ds) ==
  IF ds = <<>> THEN sz
  ELSE LET d == ds[Len(ds)] IN
    SizeAfterReverse(pol,
      CASE d.op = "C" -> sz - Len(d.key) - VLen(pol, d.new[1])
        [] d.op = "U" -> sz - VLen(pol, d.new[1]) + VLen(pol, d.old[1])
        [] d.op = "D" -> sz + Len(d.key) + VLen(pol, d.old[1]),
      SubSeq(ds, 1, Len(ds) - 1))
==========================================================================
