CONSTANT UseOldPlan = FALSE
SPECIFICATION Spec
INVARIANT JobContract
CHECK_DEADLOCK FALSE
