CONSTANTS KindsC <- K4
 NSeg = 4
 MapFirstC = 0
 WorkersC = 2
 StartSegC = 0
 CacheMode = "empty"
SPECIFICATION Spec
INVARIANT NoInvalidState
INVARIANT JobInputsComplete
INVARIANT NoFailure
INVARIANT MergeOnceInOrder
INVARIANT WorkersConsistent
INVARIANT OutcomeOK
PROPERTY Terminates
CHECK_DEADLOCK FALSE
