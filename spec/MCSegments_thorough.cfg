CONSTANTS MaxSz = 16
 MaxInit = 64
 MaxEnd = 96
 MaxPt = 12
 MaxChunk = 7
INIT Init
NEXT Next
INVARIANT CaseOK
CHECK_DEADLOCK FALSE
