------------------------------- MODULE Graph -------------------------------
(* Module graphs: dependency closure, execution staging (pipeline/exec/graph.go computeStages)   *)
(* and cache identity (manifest/signature.go) as a TERM algebra (a perfect hash).               *)
(* A graph is a sequence of module records                                                      *)
(*   [name, kind \in {"map","store","index"}, init, code, entry,                                *)
(*    inputs : Seq([k \in {"source","params","map","store"}, v, mode]), filter : <<>> | <<mod, query>>] *)
EXTENDS Integers, Sequences, FiniteSets, TLC

Names(g) == {g[i].name : i \in DOMAIN g}
Mod(g, n) == g[CHOOSE i \in DOMAIN g : g[i].name = n]
SeqSet(s) == {s[i] : i \in DOMAIN s}

\* modules a module reads from (map / store inputs) or is filtered by
InputDeps(m) == {m.inputs[i].v : i \in {j \in DOMAIN m.inputs : m.inputs[j].k \in {"map", "store"}}}
Deps(m) == InputDeps(m) \cup (IF m.filter = <<>> THEN {} ELSE {m.filter[1]})

RECURSIVE AncestorsOf(_, _)
AncestorsOf(g, n) ==
  LET d == Deps(Mod(g, n)) \cap Names(g) IN d \cup UNION {AncestorsOf(g, x) : x \in d}
Descendants(g, n) == {x \in Names(g) : n \in AncestorsOf(g, x)}
Used(g, out) == {out} \cup AncestorsOf(g, out)

------------------------------------------------------------------------
(* C06: the identity of a module as a term; equal terms <=> same computation *)
RECURSIVE Sig(_, _)
Sig(g, n) ==
  LET m == Mod(g, n) IN
  [ code |-> m.code, entry |-> m.entry, kind |-> m.kind, init |-> m.init,
    inputs |-> [i \in DOMAIN m.inputs |->
                  IF m.inputs[i].k \in {"map", "store"}
                  THEN <<m.inputs[i].k, m.inputs[i].mode, Sig(g, m.inputs[i].v)>>
                  ELSE <<m.inputs[i].k, m.inputs[i].v>>],
    filter |-> IF m.filter = <<>> THEN <<>> ELSE <<Sig(g, m.filter[1]), m.filter[2]>>,
    ancestors |-> {Sig(g, a) : a \in AncestorsOf(g, n)} ]

------------------------------------------------------------------------
(* C14: reference layering, transcribed from computeStages *)
IsStore(m) == m.kind = "store"

\* does some input of m exist at m's initial block?
InputAtInit(g, m) ==
  \E i \in DOMAIN m.inputs :
     \/ m.inputs[i].k = "source"
     \/ m.inputs[i].k = "params" /\ Len(m.inputs) = 1
     \/ m.inputs[i].k \in {"map", "store"} /\ m.init >= Mod(g, m.inputs[i].v).init

\* modules of `mods` (a sequence of names, in list order) that can enter layer number i given `seen`
LayerAt(g, mods, seen, i) ==
  SelectSeq(mods, LAMBDA n :
     LET m == Mod(g, n) IN
       /\ n \notin seen
       /\ (IsStore(m) <=> (i % 2 = 0))
       /\ Deps(m) \subseteq seen)

RECURSIVE LayersFrom(_, _, _, _, _)
LayersFrom(g, mods, seen, i, fuel) ==
  IF Cardinality(seen) = Len(mods) \/ fuel = 0 THEN <<>>
  ELSE LET ly == LayerAt(g, mods, seen, i) IN
       (IF ly = <<>> THEN <<>> ELSE <<ly>>) \o LayersFrom(g, mods, seen \cup SeqSet(ly), i + 1, fuel - 1)

RefLayers(g, mods) == LayersFrom(g, mods, {}, 0, 2 * Len(mods) + 2)

------------------------------------------------------------------------
(* C14 predicates over an OBSERVED staging: stages = Seq(Seq(Seq(name))) *)
Flatten(stages) ==
  LET RECURSIVE Fl(_)
      Fl(s) == IF s = <<>> THEN <<>> ELSE Head(s) \o Fl(Tail(s))
  IN Fl(stages)

LayerIndex(layers, n) == CHOOSE i \in DOMAIN layers : n \in SeqSet(layers[i])

ExactlyOnce(g, out, layers) ==
  /\ UNION {SeqSet(layers[i]) : i \in DOMAIN layers} = Used(g, out)        \* every needed module, no unneeded one
  /\ \A i \in DOMAIN layers : Cardinality(SeqSet(layers[i])) = Len(layers[i])
  /\ \A i, j \in DOMAIN layers : i # j => SeqSet(layers[i]) \cap SeqSet(layers[j]) = {}

DepsBefore(g, layers) ==
  \A i \in DOMAIN layers : \A n \in SeqSet(layers[i]) :
     \A d \in Deps(Mod(g, n)) : \E j \in 1..(i - 1) : d \in SeqSet(layers[j])

Homogeneous(g, layers) ==
  \A i \in DOMAIN layers : layers[i] # <<>> /\
     ((\A n \in SeqSet(layers[i]) : IsStore(Mod(g, n))) \/ (\A n \in SeqSet(layers[i]) : ~IsStore(Mod(g, n))))

StoreLayer(g, ly) == IsStore(Mod(g, ly[1]))

\* every store layer closes a stage; only the last stage may end with a non-store layer
StagesOK(g, stages) ==
  \A s \in DOMAIN stages :
     /\ stages[s] # <<>>
     /\ \A k \in 1..(Len(stages[s]) - 1) : ~StoreLayer(g, stages[s][k])
     /\ (s < Len(stages) => StoreLayer(g, stages[s][Len(stages[s])]))

InitsOK(g, out) == \A n \in Used(g, out) : InputAtInit(g, Mod(g, n))
==========================================================================
