CONSTANT NBlocks = 3
INIT Init
NEXT Next
INVARIANT Theorem
CHECK_DEADLOCK FALSE
