----------------------------- MODULE TraceGraph -----------------------------
(* C14 and C06 trace validation.                                                              *)
(* "stage" records: a module graph accepted by manifest.ValidateModules, an output module, and *)
(*   what exec.NewOutputModuleGraph produced (staging / used modules / stores, or an error,    *)
(*   panic, hang).  The C14 predicates of Graph.tla judge the OBSERVED staging.                *)
(* "mutation"/"transform"/"determinism" records: the set of modules whose real identifier      *)
(*   changed, judged against term inequality of Sig (C06).                                     *)
EXTENDS Graph, Json, IOUtils

Trace == ndJsonDeserialize(IOEnv.VERIF_TRACE)
VARIABLES l, bad, drift
vars == <<l, bad, drift>>
F(cond, sig) == IF cond THEN <<>> ELSE <<sig>>

StageFails(r) ==
  LET g == r.g  o == r.obs  layers == Flatten(o.stages) IN
  IF ~r.valid THEN <<>>                                              \* not a valid graph: C17's business
  ELSE IF o.hung THEN <<"C14:staging_does_not_terminate">>
  ELSE IF o.panic # "" THEN <<"C14:panic_on_valid_graph">>
  ELSE IF o.err # "" THEN F(~InitsOK(g, r.out), "C14:valid_graph_rejected")
  ELSE
     F(InitsOK(g, r.out), "C14:module_accepted_without_input_at_initial_block")
  \o F(ExactlyOnce(g, r.out, layers), "C14:needed_modules_exactly_once")
  \o (IF ExactlyOnce(g, r.out, layers) THEN
         F(DepsBefore(g, layers), "C14:module_not_after_its_dependencies")
      \o F(Homogeneous(g, layers), "C14:mixed_layer")
      \o (IF Homogeneous(g, layers) THEN F(StagesOK(g, o.stages), "C14:store_layer_does_not_close_stage") ELSE <<>>)
      \o F(SeqSet(o.used) = Used(g, r.out), "C14:used_modules")
      \o F(SeqSet(o.stores) = {n \in Used(g, r.out) : IsStore(Mod(g, n))}, "C14:stores_list")
      ELSE <<>>)

\* real identifier changed <=> Sig changed, for every module of the original graph
Changed(g, h) == {n \in Names(g) : n \notin Names(h) \/ Sig(g, n) # Sig(h, n)}

MutationFails(r) ==
  IF r.err # "" THEN <<>>      \* the mutated graph cannot be hashed for some module: not judged
  ELSE LET exp == Changed(r.g, r.h)  got == SeqSet(r.changed) IN
     F(got \subseteq exp, "C06:id_changed_without_cause:" \o r.mut.kind)
  \o F(exp \subseteq got, "C06:id_unchanged:" \o r.mut.kind)

TransformFails(r) ==
  IF r.t = "list_order" THEN <<>>     \* not among the property's identity-preserving transformations (reported as drift)
  ELSE IF r.err # "" THEN <<"C06:transform_error:" \o r.t>>
  ELSE F(\A n \in Names(r.g) : r.ids[n] = r.ids2[n], "C06:id_changed_by:" \o r.t)

Fails(r) ==
  CASE r.k = "stage" -> StageFails(r)
    [] r.k = "mutation" -> MutationFails(r)
    [] r.k = "transform" -> TransformFails(r)
    [] r.k = "determinism" -> F(r.ids = r.ids2, "C06:not_deterministic")
    [] OTHER -> <<"unknown_record">>

\* drift: observed layering differs from the transcription of computeStages (does not decide C14)
DriftOf(r) ==
  IF r.k = "transform" THEN r.t = "list_order" /\ r.err = "" /\ \E n \in Names(r.g) : r.ids[n] # r.ids2[n]
  ELSE IF r.k = "stage" THEN
       r.valid /\ ~r.obs.hung /\ r.obs.panic = "" /\ r.obs.err = "" /\ Flatten(r.obs.stages) # RefLayers(r.g, r.obs.used)
  ELSE FALSE

Init == l = 1 /\ bad = <<>> /\ drift = <<>>
Next ==
  /\ l <= Len(Trace)
  /\ LET r == Trace[l]  f == Fails(r) IN
       /\ bad' = IF f = <<>> THEN bad ELSE Append(bad, [i |-> l, why |-> f])
       /\ drift' = IF DriftOf(r) THEN Append(drift, l) ELSE drift
  /\ l' = l + 1
Done == l = Len(Trace) + 1
WriteVerdict == Done => JsonSerialize(IOEnv.VERIF_OUT, [n |-> Len(Trace), bad |-> bad, drift |-> drift])
============================================================================
