------------------------------ MODULE MCPipeline ------------------------------
(* Design-level exploration of Pipeline.tla under every fork history a resolver can produce over MaxH heights and the        *)
(* branches of Branches: extend the chain; or reorganise - undo the blocks above a junction one by one (head first), then    *)
(* extend on any branch, including the one just undone (chains that flip back and forth over the same blocks).               *)
(* StartC is the requested start block of a request WITHOUT cursor: the client holds nothing below it.                        *)
(*                                                                                                                            *)
(* With StartC = 1 (nothing can be reorganised below the start) every property holds.  With StartC = 3 TLC finds the          *)
(* counterexamples of open finding D11: an undo below the start block opens the gate (data below the start block) and the     *)
(* undo signal designates a block the client never held.                                                                      *)
EXTENDS Pipeline, TLC
CONSTANTS MaxH, Branches, StartC, MaxReorgs
VARIABLES canon,   \* the resolver's current chain: sequence of blocks, heights 1..Len
          pend,    \* undo steps still to deliver for the reorganisation in progress
          ps,      \* pipeline state
          held,    \* what the client holds
          bad,     \* first property violated by a message ("" = none)
          reorgs
vars == <<canon, pend, ps, held, bad, reorgs>>

Deliver(st) ==
  LET r == PStep(ps, st, StartC, FALSE)
      RECURSIVE Go(_, _, _)
      Go(h, ms, b) ==
        IF ms = <<>> THEN [held |-> h, bad |-> b]
        ELSE LET m == Head(ms)
                 nb == IF b = "data_below_start_block" THEN b
                       ELSE IF m.k = "data" /\ m.b.h < StartC THEN "data_below_start_block"
                       ELSE IF b # "" THEN b
                       ELSE IF ~UndoOK(h, m) THEN "undo_signal_designates_block_client_does_not_hold"
                       ELSE IF ~DataOK(h, m) THEN "two_blocks_at_same_height_without_undo"
                       ELSE "" IN
             Go(ClientStep(h, m), Tail(ms), nb)
      g == Go(held, r.msgs, bad)
  IN ps' = r.ps /\ held' = g.held /\ bad' = g.bad

Init == canon = <<>> /\ pend = <<>> /\ ps = PInit /\ held = <<>> /\ bad = "" /\ reorgs = 0

Extend(br) ==
  /\ pend = <<>> /\ Len(canon) < MaxH
  /\ LET b == [h |-> Len(canon) + 1, br |-> br] IN
       /\ canon' = Append(canon, b)
       /\ Deliver([k |-> "new", b |-> b, j |-> NoBlk])
  /\ UNCHANGED <<pend, reorgs>>

\* a reorganisation back to the block at height j (j >= 1: a fork directly off the initial final block is not generated)
Reorg(j) ==
  /\ pend = <<>> /\ reorgs < MaxReorgs /\ j >= 1 /\ j < Len(canon)
  /\ pend' = [i \in 1..(Len(canon) - j) |-> [k |-> "undo", b |-> canon[Len(canon) - i + 1], j |-> canon[j]]]
  /\ reorgs' = reorgs + 1
  /\ UNCHANGED <<canon, ps, held, bad>>

Undo ==
  /\ pend # <<>>
  /\ Deliver(Head(pend))
  /\ canon' = SubSeq(canon, 1, Len(canon) - 1)
  /\ pend' = Tail(pend)
  /\ UNCHANGED reorgs

Next == (\E br \in Branches : Extend(br)) \/ (\E j \in 1..MaxH : Reorg(j)) \/ Undo
Spec == Init /\ [][Next]_vars

NoBadMessage == bad = ""
NoDataBelowStart == bad # "data_below_start_block"
\* between reorganisations the client holds exactly the canonical chain from the start block on
ClientIsCanonical ==
  pend = <<>> => held = SelectSeq(canon, LAMBDA b : b.h >= StartC)
=============================================================================
