INIT Init
NEXT TNext
INVARIANT WriteVerdict
CHECK_DEADLOCK FALSE
