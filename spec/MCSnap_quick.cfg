CONSTANTS N = 5
 MaxFiles = 3
INIT Init
NEXT Next
INVARIANT ListingComplete
CHECK_DEADLOCK FALSE
