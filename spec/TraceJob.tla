------------------------------ MODULE TraceJob ------------------------------
(* The contract of ONE tier2 segment job (service/tier2.go ProcessRange: GetExecutionPlan, pipeline,   *)
(* OnStreamTerminated), judged on real jobs run for every stage k and EVERY subset of the cache files   *)
(* of the job's segment (harness driver "jobs"; the complete files of the previous segment are always   *)
(* present, so the job's inputs are complete).  This is the job-level lemma of C07 / C01:                *)
(*   - the job succeeds (it has everything it needs) and does not crash;                                 *)
(*   - it deletes nothing;                                                                               *)
(*   - every file it leaves equals, byte for byte after decompression, the file of the same name left    *)
(*     by a clean run (a file present before was not rewritten with other content; a file it wrote is    *)
(*     what a clean run writes): results do not depend on which cache files existed;                     *)
(*   - afterwards the segment is COMPLETE for stage k: a snapshot (full at the segment end, or partial   *)
(*     over the segment) of every store of stages <= k exists and, for the last stage, the output        *)
(*     module's file exists - what the scheduler assumes when it receives MsgJobSucceeded.               *)
EXTENDS Job, TLC, Json, IOUtils

Trace == ndJsonDeserialize(IOEnv.VERIF_TRACE)
VARIABLES l, bad, drift, prog
vars == <<l, bad, drift, prog>>
F(cond, sig) == IF cond THEN <<>> ELSE <<sig>>

Same(f, g) == f.mod = g.mod /\ f.kind = g.kind /\ f.start = g.start /\ f.end = g.end
In(fs, f) == \E i \in DOMAIN fs : Same(fs[i], f)
Has(fs, mod, kind, e) == \E i \in DOMAIN fs : fs[i].mod = mod /\ fs[i].kind = kind /\ fs[i].end = e

JobFails(r) ==
  LET S == prog.seg  E == 2 * prog.seg  k == r.stage
      below == SelectSeq(prog.mods, LAMBDA m : m.stage <= k) IN
  IF r.panic # "" THEN <<"C07:job_panicked">>
  ELSE
     F(r.err = "", "C07:job_failed_although_its_inputs_are_complete")
  \o F(\A i \in DOMAIN r.before : In(r.after, r.before[i]), "C07:job_deleted_a_cache_file")
  \o F(\A i \in DOMAIN prog.baseFiles : In(r.after, prog.baseFiles[i]), "C07:job_deleted_a_file_of_the_previous_segment")
  \o F(\A i \in DOMAIN r.after : r.after[i].ref => r.after[i].eq, "C07:file_left_by_job_differs_from_clean_run")
  \o F(\A i \in DOMAIN r.after : r.after[i].ref, "C07:job_wrote_a_file_no_clean_run_writes")
  \o (IF r.err # "" THEN <<>> ELSE
        \* (the cached outputs of the OTHER modules are an optimisation for later jobs: a job that finds the output module's
        \*  file and every snapshot may leave them unwritten)
        F(k < prog.nstages - 1 \/ Has(r.after, prog.out, "output", E), "C07:requested_output_missing_after_successful_job")
     \o F(\A i \in DOMAIN below : below[i].kind = "store" =>
             Has(r.after, below[i].name, "kv", E) \/ Has(r.after, below[i].name, "partial", E),
          "C07:store_snapshot_missing_after_successful_job"))

\* the plan the REAL GetExecutionPlan computed for this cache, against the transcription of Job.tla (drift)
SetOf(seq) == {seq[i] : i \in DOMAIN seq}
PlanDrift(r) ==
  IF "plan" \notin DOMAIN r \/ r.plan.err # "" THEN <<>>
  ELSE LET E == 2 * prog.seg
           fs == {File(r.before[i].mod, r.before[i].kind) : i \in {j \in DOMAIN r.before : r.before[j].end = E}}
           p == Plan(prog.mods, prog.out, prog.nstages, fs, r.stage) IN
       F(p.skip = r.plan.skip, "drift:plan_skip")
    \o (IF r.plan.skip THEN <<>> ELSE
           F(p.required = SetOf(r.plan.required), "drift:plan_required_modules")
        \o F(p.toWrite = SetOf(r.plan.toWrite), "drift:plan_stores_to_write")
        \o F(p.writers = SetOf(r.plan.writers), "drift:plan_output_writers"))

\* a program with a block index and block-filtered modules also decides C15 (index present / absent must not change results)
HasIndex == \E i \in DOMAIN prog.mods : prog.mods[i].kind = "index"
Retag(sigs) == sigs \o (IF HasIndex THEN [i \in DOMAIN sigs |-> "C15" \o SubSeq(sigs[i], 4, Len(sigs[i]))] ELSE <<>>)

Init == l = 1 /\ bad = <<>> /\ drift = <<>> /\ prog = <<>>
Next ==
  /\ l <= Len(Trace)
  /\ l' = l + 1
  /\ LET r == Trace[l] IN
     IF r.k = "jobprog" THEN prog' = r /\ UNCHANGED <<bad, drift>>
     ELSE IF r.k = "jobref" THEN
        /\ bad' = Append(bad, [i |-> l, why |-> <<"C07:clean_reference_run_failed">>]) /\ UNCHANGED <<drift, prog>>
     ELSE LET f == Retag(JobFails(r))  d == PlanDrift(r) IN
        /\ bad' = IF f = <<>> THEN bad ELSE Append(bad, [i |-> l, why |-> f])
        /\ drift' = IF d = <<>> THEN drift ELSE Append(drift, [i |-> l, why |-> d])
        /\ UNCHANGED prog

Done == l = Len(Trace) + 1
WriteVerdict == Done => JsonSerialize(IOEnv.VERIF_OUT, [n |-> Len(Trace), bad |-> bad, drift |-> drift])
=============================================================================
