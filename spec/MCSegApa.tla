------------------------------ MODULE MCSegApa ------------------------------
(* TLC cross-check: the integer formulation used by SegmentsApa.tla (Apalache) is the SegRange of Segments.tla. *)
EXTENDS Segments, TLC
ASSUME \A sz \in 1..9, init \in 0..24, end \in 1..36 : init < end =>
         \A k \in FirstIndex(sz, init)..LastIndex(sz, end) :
            SegRange(sz, init, end, k) = << IF init > k * sz THEN init ELSE k * sz, IF end < (k + 1) * sz THEN end ELSE (k + 1) * sz >>
=============================================================================
