INIT Init
NEXT Next
INVARIANT RoundTrip
INVARIANT VarintOK
CHECK_DEADLOCK FALSE
