INIT Init
NEXT Next
INVARIANT WriteVerdict
CHECK_DEADLOCK FALSE
