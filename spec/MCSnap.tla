------------------------------ MODULE MCSnap ------------------------------
(* Design-level model of snapshot naming and listing (C10): files are named            *)
(* "<end>-<start>.<kv|partial>" (zero padded), the listing walks names in lexical order *)
(* and STOPS at the first file whose start is >= below (config.go ListSnapshotFiles).   *)
(* Checked: whatever set of snapshots exists, the listing below b contains every        *)
(* snapshot ending at or below b, and only saved snapshots.                             *)
EXTENDS Integers, Sequences, FiniteSets, TLC
CONSTANTS N, MaxFiles
VARIABLE files
AllFiles == { [start |-> s, end |-> e, partial |-> p] : s \in 0..N, e \in 1..N, p \in BOOLEAN } 
Legal == { f \in AllFiles : f.start < f.end }
\* lexical order of names = order of <<end, start, kind>>, "kv" before "partial"
NameLt(f, g) == \/ f.end < g.end
                \/ f.end = g.end /\ f.start < g.start
                \/ f.end = g.end /\ f.start = g.start /\ ~f.partial /\ g.partial
RECURSIVE Sorted(_)
Sorted(S) == IF S = {} THEN <<>> ELSE LET m == CHOOSE x \in S : \A y \in S \ {x} : NameLt(x, y) IN <<m>> \o Sorted(S \ {m})
RECURSIVE WalkUntil(_, _)
WalkUntil(s, below) == IF s = <<>> \/ Head(s).start >= below THEN {} ELSE {Head(s)} \cup WalkUntil(Tail(s), below)
ImplList(below) == IF below = 0 THEN {} ELSE WalkUntil(Sorted(files), below)

Init == files = {}
Next == \E f \in Legal \ files : Cardinality(files) < MaxFiles /\ files' = files \cup {f}
ListingComplete == \A b \in 0..(N + 1) : {f \in files : f.end <= b} \subseteq ImplList(b) /\ ImplList(b) \subseteq files
===========================================================================
