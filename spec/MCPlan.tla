------------------------------ MODULE MCPlan ------------------------------
(* Design-level check of Plan.tla: for EVERY configuration of the bounded space the reference   *)
(* resolution (StateRequiredAt, Handoff) and the reference plan (transcribed from               *)
(* BuildTier1RequestPlan) satisfy the C12 coverage predicates.                                  *)
EXTENDS Plan, TLC
CONSTANTS Segs, Inits, Outs, MaxS, MaxE, Libs, MaxStores

VARIABLE c   \* Libs: 99 stands for "final block unknown"
StoreLists == UNION { [1..n -> Inits] : n \in 0..MaxStores }

\* two-phase enumeration so that TLC's workers share the work: Init picks the graph shape, Next the request
Shapes == { [phase |-> 1, prod |-> p, seg |-> g, stores |-> ss, out |-> o] :
              p \in BOOLEAN, g \in Segs, ss \in StoreLists, o \in Outs }
Init == c \in Shapes
Next ==
  /\ c.phase = 1
  /\ \E s \in 0..MaxS, e \in 0..MaxE, lb \in Libs :
       /\ (e = 0 \/ e > s) /\ s >= c.out /\ ~(c.prod /\ lb = 99 /\ e = 0)
       /\ c' = [phase |-> 2, prod |-> c.prod, seg |-> c.seg, stores |-> c.stores, out |-> c.out,
                start |-> s, stop |-> e, libok |-> (lb # 99), lib |-> IF lb # 99 THEN lb ELSE 0]

LowestInit(x) == SetMin({x.out} \cup {x.stores[i] : i \in DOMAIN x.stores})
Sched(x) == x.stores # <<>>
LowestStoreInit(x) == IF Sched(x) THEN SetMin({x.stores[i] : i \in DOMAIN x.stores}) ELSE 0

\* transcription of plan.BuildTier1RequestPlan
RefPlan(x, S, H) ==
  LET E == x.stop
      li == LowestInit(x)
      lin == IF H < E \/ E = 0 \/ H = 0 THEN <<H, E>> ELSE <<>>
      bs == IF Sched(x) /\ H > LowestStoreInit(x) THEN <<LowestStoreInit(x), H>> ELSE <<>>
      ws == Max(li, (Max(S, li) \div x.seg) * x.seg)
  IN IF S = H /\ li = S THEN [build |-> <<>>, write |-> <<>>, read |-> <<>>, linear |-> lin]
     ELSE IF x.prod THEN
        [build |-> bs,
         write |-> IF S < H THEN <<ws, H>> ELSE <<>>,
         read  |-> IF S < H THEN <<S, IF E # 0 /\ E < H THEN E ELSE H>> ELSE <<>>,
         linear |-> lin]
     ELSE [build |-> bs, write |-> <<>>, read |-> <<>>, linear |-> lin]

Obs(x) ==
  LET S == x.start
      H == Handoff(x.prod, S, x.stop, x.libok, x.lib, StateRequiredAt(x.stores, S), x.seg)
      p == RefPlan(x, S, H)
  IN [S |-> S, H |-> H, gate |-> Max(S, H), build |-> p.build, write |-> p.write, read |-> p.read, linear |-> p.linear,
      lowestInit |-> LowestInit(x)]

PlanOK == c.phase = 2 => LET o == Obs(c) IN
  /\ BuildOK(c, o)
  /\ ReadOK(c, o)
  /\ LinearOK(c, o)
  /\ CoverOK(c, o)
  /\ WholeSegmentsOK(c, o)
===========================================================================
