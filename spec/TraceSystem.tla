---------------------------- MODULE TraceSystem ----------------------------
(* End-to-end trace validation (C01 C04 C07 C15 C16): real tier1 requests (scheduler, in-process   *)
(* tier2 jobs, squasher, walker, linear pipeline) on generated module programs.  A "prog" record    *)
(* starts a scenario (one program, one cache directory); every "run" record is one request with     *)
(* its configuration and everything observed.  The oracle is SeqExec of Exec.tla; the hand-off is   *)
(* the reference of Plan.tla.                                                                       *)
EXTENDS Exec, Plan, Pipeline, Json, IOUtils

Trace == ndJsonDeserialize(IOEnv.VERIF_TRACE)
VARIABLES l, bad, drift, prog, seg, ref, orig
vars == <<l, bad, drift, prog, seg, ref, orig>>
F(cond, sig) == IF cond THEN <<>> ELSE <<sig>>
KVEq(a, b) == DOMAIN a = DOMAIN b /\ \A k \in DOMAIN a : a[k] = b[k]   \* (an empty JSON object is an empty record, not <<>>)

MaxBlock == 48
Blk(n) == [num |-> n, id |-> ToString(n) \o "a", branch |-> 0]
LowestInit(p) == SetMin({p[i].init : i \in DOMAIN p})
FinalChain(p) == [k \in 1..(MaxBlock - LowestInit(p) + 1) |-> Blk(LowestInit(p) + k - 1)]
\* reference results for block n (ref is RunChain over the final chain from the lowest initial block)
Res(n) == ref[n - LowestInit(prog) + 1]
OutMod == prog[Len(prog)]
OutOf(r) == IF "outmod" \in DOMAIN r.cfg /\ r.cfg.outmod # "" THEN ModByName(prog, r.cfg.outmod) ELSE OutMod
StoreInits(p) == LET s == SelectSeq(p, LAMBDA m : m.kind = "store") IN [i \in DOMAIN s |-> s[i].init]
RECURSIVE DepsOf(_)
DepsOf(name) ==
  LET m == ModByName(prog, name)
      d == {m.inputs[i].v : i \in {j \in DOMAIN m.inputs : m.inputs[j].k \in {"map", "store"}}}
           \cup (IF m.filter = <<>> THEN {} ELSE {m.filter[1]}) IN
  d \cup UNION {DepsOf(x) : x \in d}
\* the part of the program a request uses: its output module and everything it depends on (requests for different
\* output modules share one cache directory)
UProg(r) == LET used == {OutOf(r).name} \cup DepsOf(OutOf(r).name) IN SelectSeq(prog, LAMBDA m : m.name \in used)

Prefix(label, p) == Len(label) >= Len(p) /\ SubSeq(label, 1, Len(p)) = p
Datas(o) == SelectSeq(o.resp, LAMBDA x : x.kind = "data")
\* what a data message carries: the decimal value of a mapper, or the keys of a block-index module requested as output
ObsPayload(d, r) == IF OutOf(r).kind = "index" /\ "keys" \in DOMAIN d THEN d.keys ELSE d.payload

\* Features of a failing request computed from the cache content it started on (known-finding signatures, Appendix D):
\* the output module's cached output exists for some segment while a store's snapshot for that segment is missing
Has(fs, mod, kind, a, b) == \E i \in DOMAIN fs : ~fs[i].tmp /\ fs[i].mod = mod /\ fs[i].kind = kind /\ fs[i].start = a /\ fs[i].end = b
OutputCachedButStoreSnapshotMissingIn(r, fs) ==
  \E i \in DOMAIN fs : ~fs[i].tmp /\ fs[i].mod = OutOf(r).name /\ fs[i].kind = "output" /\
     \E j \in DOMAIN UProg(r) : LET m == UProg(r)[j] IN m.kind = "store" /\ m.init < fs[i].end /\
        ~Has(fs, m.name, "kv", m.init, fs[i].end) /\
        ~Has(fs, m.name, "partial", Max(m.init, fs[i].start - (fs[i].start % r.cfg.seg)), fs[i].end)
\* production request whose back-filled range lies entirely below every store's initial block although the graph has
\* store stages: NewStages drops the store stages and the unit's stage index no longer is the graph's stage index
StoreStagesDroppedFromMatrix(r) ==
  LET c == r.cfg
      H == Handoff(c.prod, c.start, c.stop, c.libok, c.lib, StateRequiredAt(StoreInits(UProg(r)), c.start), c.seg) IN
  c.prod /\ c.start < H /\ StoreInits(UProg(r)) # <<>> /\ \A i \in DOMAIN StoreInits(UProg(r)) : StoreInits(UProg(r))[i] >= H
\* the full snapshots of some store found in the cache are not a prefix of the segment boundaries (a later one exists
\* while an earlier one is missing): the scheduler takes the later unit for Completed and starts a job of a higher
\* stage whose input snapshot at the segment START does not exist yet (stages.go dependenciesCompleted)
SnapshotHole(r) ==
  LET fs == r.filesBefore  sg == r.cfg.seg IN
  \E i \in DOMAIN fs : ~fs[i].tmp /\ fs[i].kind = "kv" /\
     \E e \in (fs[i].start + 1)..(fs[i].end - 1) : e % sg = 0 /\ ~Has(fs, fs[i].mod, "kv", fs[i].start, e)
\* a store that must be back-filled reads a store (of a lower stage) that only starts at or above the hand-off: the lower
\* stage has no segment to process, its units never complete and the scheduler waits forever
LowerStoreAboveHandoff(r) ==
  LET c == r.cfg
      H == Handoff(c.prod, c.start, c.stop, c.libok, c.lib, StateRequiredAt(StoreInits(UProg(r)), c.start), c.seg) IN
  \E i \in DOMAIN UProg(r) : LET m == UProg(r)[i] IN m.kind = "store" /\ m.init < H /\
     \E k \in DOMAIN m.inputs : m.inputs[k].k = "store" /\ ModByName(prog, m.inputs[k].v).init >= H
\* the same mechanism seen on the scheduler's stages (logged with the run): a LOWER stage whose first segment lies beyond a
\* segment a HIGHER stage must process never gets a unit there, and dependenciesCompleted waits for it forever
LowerStageStartsLater(r) ==
  "stages" \in DOMAIN r.obs /\
  LET f == r.obs.stages.first  la == r.obs.stages.last IN
  \E i \in DOMAIN f, j \in DOMAIN f : i < j /\ f[i] - 1 > f[j] /\ la[j] > f[j]
OutputCachedButStoreSnapshotMissing(r) == OutputCachedButStoreSnapshotMissingIn(r, r.filesBefore)
\* the same state produced DURING the request: a tier2 job interrupted by a transient fault (stream dropped mid-way) after it
\* wrote the output module's file and before it wrote the store snapshots; the retried job finds the output file and returns
\* at once ("found existing exec output for output_module, skipping run")
InterruptedBetweenOutputAndSnapshot(r) ==
  "faults" \in DOMAIN r /\ "files" \in DOMAIN r.obs /\ OutputCachedButStoreSnapshotMissingIn(r, r.obs.files)
FailSig(r) ==
  IF "filesBefore" \in DOMAIN r /\ SnapshotHole(r) THEN "request_failed:store_snapshot_hole"
  ELSE IF "filesBefore" \in DOMAIN r /\ OutputCachedButStoreSnapshotMissing(r) THEN "request_failed:output_cached_but_store_snapshot_missing"
  ELSE IF InterruptedBetweenOutputAndSnapshot(r) THEN "request_failed:output_cached_but_store_snapshot_missing:job_interrupted_between_the_two_writes"
  ELSE IF LowerStoreAboveHandoff(r) \/ LowerStageStartsLater(r) THEN "request_failed:lower_stage_store_starts_above_handoff"
  ELSE IF StoreStagesDroppedFromMatrix(r) THEN "request_failed:store_stages_dropped_stage_index_shift"
  ELSE "request_failed"

\* the deterministic failure is programmed in the source mapper m_src: it happens iff m_src is needed for the output
\* module and executes at the failing block
FailExpected(r) ==
  /\ "m_src" \in DepsOf(OutOf(r).name)
  /\ r.failAt <= MaxBlock /\ r.failAt >= LowestInit(prog)
  /\ Res(r.failAt).outs["m_src"].ran

RunFails(r, from) ==
  LET c == r.cfg  o == r.obs  ds == Datas(o)
      S == c.start  E == c.stop
      H == Handoff(c.prod, S, E, c.libok, c.lib, StateRequiredAt(StoreInits(UProg(r)), S), c.seg)
      nums == {ds[i].num : i \in DOMAIN ds}
      resumed == c.cursor # ""
      \* when resuming from the cursor of delivered block b, the stream is that of a request starting at b+1
      S2 == IF resumed THEN from + 1 ELSE S
  IN
  IF o.panic # "" THEN <<"panic">>
  ELSE IF \E i \in DOMAIN ds : ds[i].unparsed THEN <<"unparsable_payload">>
  ELSE IF r.failAt >= 0 /\ FailExpected(r) THEN
     \* a module fails deterministically at block failAt: invalid-argument, and what was delivered is a correct prefix before it
     F(o.err # "" /\ o.code = "invalid_argument", "deterministic_failure_not_reported_as_invalid_argument")
  \o F(\A i \in DOMAIN ds : ds[i].num < r.failAt, "block_delivered_at_or_after_the_failing_block")
  \o F(\A i \in DOMAIN ds : ds[i].num >= S2 /\ ds[i].num < E, "block_outside_requested_range")
  \o F(\A i \in 1..(Len(ds) - 1) : ds[i].num < ds[i + 1].num, "not_strictly_increasing")
  \o F(\A i \in DOMAIN ds : ds[i].num <= MaxBlock => ObsPayload(ds[i], r) = PayloadOf(Res(ds[i].num), OutOf(r).name), "payload_differs_from_sequential_execution")
  ELSE
     \* (a request the HARNESS cancelled on purpose ends with an error: what it delivered before must still be right)
     F(o.err = "" \/ Prefix(c.label, "cancel/victim"), FailSig(r))
  \o F(\A i \in DOMAIN ds : ds[i].num >= S2 /\ ds[i].num < E, "block_outside_requested_range")
  \o F(\A i \in 1..(Len(ds) - 1) : ds[i].num < ds[i + 1].num, "not_strictly_increasing")
  \o F(\A i \in DOMAIN ds : ds[i].curnum = ds[i].num /\ ds[i].curid = ds[i].id, "cursor_designates_other_block")
  \o F(\A i \in DOMAIN ds : ds[i].id = Blk(ds[i].num).id, "block_id")
  \o F(\A i \in DOMAIN ds : ds[i].num <= MaxBlock => ObsPayload(ds[i], r) = PayloadOf(Res(ds[i].num), OutOf(r).name), "payload_differs_from_sequential_execution")
     \* blocks may be missing only below the hand-off (production back-fill) and only when their output is empty
     \* (a block-index module requested as output is only BUILT while back-filling - "no ReadExecOut if output type is an
     \*  index", orchestrator/parallelprocessor.go -: nothing below the hand-off is streamed for it, by design)
     \* (blocks above MaxBlock are beyond the reference execution: nothing is claimed about them)
  \o F(o.err # "" \/ \A n \in S2..(E - 1) : n \in nums \/ n > MaxBlock \/ (c.prod /\ n < H /\ n <= MaxBlock /\
                                                       (PayloadOf(Res(n), OutOf(r).name) = <<>> \/ OutOf(r).kind = "index")),
       "block_missing")
  \o F(o.err # "" \/ ~o.hasmap \/ E > MaxBlock \/
       \A sname \in DOMAIN o.stores : LET pol == ModByName(prog, sname).body.pol IN
           KVEq(o.stores[sname], VisibleKV(pol, Res(E - 1).kv[sname])),
       "store_map_differs_from_sequential_execution")

\* resumption: the resumed stream equals the suffix of the original one after the cursor's block
ResumeFails(r, from) ==
  LET ds == Datas(r.obs)  od == orig
      suffix == SelectSeq(od, LAMBDA x : x.num > from) IN
  IF r.cfg.cursor = "" \/ r.obs.err # "" THEN <<>>
  ELSE F(Len(ds) = Len(suffix) /\ \A i \in DOMAIN ds : ds[i].num = suffix[i].num /\ ds[i].payload = suffix[i].payload /\ ds[i].id = suffix[i].id,
         "resumed_stream_is_not_the_suffix")

\* which properties a failure of this run decides: C01 always; C04 for stream-shape predicates and resumptions;
\* C07 when the run started on a subset of cache files; C15 when the output module is block-filtered; C16 under faults
ShapeSigs == {"block_outside_requested_range", "not_strictly_increasing", "cursor_designates_other_block", "block_missing",
              "resumed_stream_is_not_the_suffix", "panic"}
PropsOf(sig, r) ==
     <<"C01">>
  \o (IF sig \in ShapeSigs \/ Prefix(r.cfg.label, "resume") THEN <<"C04">> ELSE <<>>)
  \o (IF Prefix(r.cfg.label, "subsets") \/ Prefix(r.cfg.label, "concurrent") \/ Prefix(r.cfg.label, "cancel") THEN <<"C07">> ELSE <<>>)
  \o (IF \E i \in DOMAIN UProg(r) : UProg(r)[i].filter # <<>> THEN <<"C15">> ELSE <<>>)
  \o (IF Prefix(r.cfg.label, "faults") THEN <<"C16">> ELSE <<>>)
  \* C05 (liveness on the real code): a parallel request must terminate with the right outcome, never hang, fail or crash
  \o (IF Prefix(sig, "request_failed") \/ Prefix(sig, "panic") THEN <<"C05">> ELSE <<>>)
RECURSIVE TagAll(_, _)
TagAll(sigs, r) ==
  IF sigs = <<>> THEN <<>>
  ELSE LET ps == PropsOf(Head(sigs), r) IN [i \in DOMAIN ps |-> ps[i] \o ":" \o Head(sigs)] \o TagAll(Tail(sigs), r)

------------------------------------------------------------------------
(* C03: fork histories.  The steps were produced by the REAL bstream/forkable from a random fork tree, arrival order and
   finality progress; the canonical chain is rebuilt from the steps; stores and the client's view must follow it. *)
Letters == <<"a", "b", "c", "d", "e", "f", "g", "h">>
BranchOf(id) == (CHOOSE i \in DOMAIN Letters : Letters[i] = SubSeq(id, Len(id), Len(id))) - 1
FBlk(num, id) == [num |-> num, id |-> id, branch |-> BranchOf(id)]

\* canonical chain after the first k steps
RECURSIVE CanonAfter(_, _)
CanonAfter(steps, k) ==
  IF k = 0 THEN <<>>
  ELSE LET c == CanonAfter(steps, k - 1)  st == steps[k] IN
    IF st.step \in {"new", "newirr"} THEN Append(c, FBlk(st.num, st.id))
    ELSE IF st.step = "undo" THEN (IF c # <<>> /\ c[Len(c)].id = st.id THEN SubSeq(c, 1, Len(c) - 1) ELSE c)
    ELSE c

\* the client: keeps every data message, drops the blocks above lastValidBlock on an undo signal
RECURSIVE ClientAfter(_, _)
ClientAfter(resp, k) ==
  IF k = 0 THEN [held |-> <<>>, ok |-> TRUE, undoOK |-> TRUE]
  ELSE LET c == ClientAfter(resp, k - 1)  x == resp[k] IN
    IF x.kind = "data" THEN
      [held |-> Append(c.held, x),
       ok |-> c.ok /\ (c.held = <<>> \/ c.held[Len(c.held)].num < x.num),       \* never two blocks at one height without an undo
       undoOK |-> c.undoOK]
    ELSE IF x.kind = "undo" THEN
      [held |-> SelectSeq(c.held, LAMBDA h : h.num <= x.num),
       ok |-> c.ok,
       undoOK |-> c.undoOK /\ (c.held = <<>> \/ (\E i \in DOMAIN c.held : c.held[i].num = x.num /\ c.held[i].id = x.id)
                                            \/ x.num = c.held[1].num - 1)]    \* designates a held block, or the one before the first
    ELSE c

ForkFails(r) ==
  LET steps == r.steps  o == r.obs  c == r.cfg
      first == IF steps = <<>> THEN 0 ELSE steps[1].num
      pre == IF first <= LowestInit(prog) THEN <<>>
             ELSE [k \in 1..(first - LowestInit(prog)) |-> Blk(LowestInit(prog) + k - 1)]     \* back-filled final prefix
      canonEnd == CanonAfter(steps, Len(steps))
      full == pre \o canonEnd
      res == RunChain(prog, full)
      client == ClientAfter(o.resp, Len(o.resp))
      \* stores after each step
      storesOK(k) ==
        LET ch == pre \o CanonAfter(steps, k)
            kv == IF ch = <<>> THEN EmptyStores(prog) ELSE RunChain(prog, ch)[Len(ch)].kv IN
        \A sname \in DOMAIN o.after[k].stores :
           KVEq(o.after[k].stores[sname], VisibleKV(ModByName(prog, sname).body.pol, kv[sname]))
      expectedFor(h) == LET idx == CHOOSE i \in DOMAIN full : full[i].id = h.id IN PayloadOf(res[idx], OutMod.name)
      \* known-finding feature: the request starts above the junction of a reorg (the gate opens on any undo step and,
      \* once open, lets blocks below the start block through)
      SAJ == IF \E k \in DOMAIN steps : steps[k].step = "undo" /\ steps[k].jnum + 1 < c.start THEN ":start_above_fork_junction" ELSE ""
      heldFork == SelectSeq(client.held, LAMBDA h : h.num >= Max(r.base, c.start))
      canonFork == SelectSeq(canonEnd, LAMBDA b : b.num >= Max(r.base, c.start))
  IN
  IF o.panic # "" THEN <<"panic">>
  ELSE IF o.err # "" THEN <<FailSig(r)>>
  ELSE IF \E k \in DOMAIN steps : steps[k].step = "undo" /\ steps[k].junction = "" THEN <<>>   \* junction not observable (harness artefact)
  ELSE
     F(\A k \in DOMAIN steps : k \in DOMAIN o.after => storesOK(k), "stores_differ_from_canonical_chain_execution")
  \o F(\A k \in DOMAIN o.after : o.after[k].sizesOK, "store_size_drifted_after_reorg")
  \o F(client.ok, "two_blocks_at_same_height_without_undo")
  \o F(client.undoOK, "undo_signal_designates_block_client_does_not_hold" \o SAJ)
  \o F(\A i \in DOMAIN client.held : \E j \in DOMAIN full : full[j].id = client.held[i].id, "client_holds_block_outside_canonical_chain")
  \o F(\A i \in DOMAIN client.held : (\E j \in DOMAIN full : full[j].id = client.held[i].id) => client.held[i].payload = expectedFor(client.held[i]),
       "client_payload_differs_from_canonical_execution")
  \o F([i \in DOMAIN heldFork |-> heldFork[i].id] = [i \in DOMAIN canonFork |-> canonFork[i].id], "client_does_not_converge_on_canonical_chain")
  \o F(\A i \in DOMAIN o.resp : o.resp[i].kind = "data" => o.resp[i].num >= c.start, "data_below_start_block" \o SAJ)

\* the message-level transcription of the pipeline (Pipeline.tla, model-checked by MCPipeline) against the observed stream:
\* data / undo messages, in order, for the blocks the pipeline received as steps (drift, not a verdict)
ToStep(s) == [k |-> IF s.step \in {"new", "newirr"} THEN "new" ELSE IF s.step = "undo" THEN "undo"
                    ELSE IF s.step = "irr" THEN "final" ELSE "stalled",
              b |-> [h |-> s.num, br |-> s.id], j |-> [h |-> s.jnum, br |-> s.junction]]
ForkDrift(r) ==
  LET steps == r.steps  o == r.obs
      first == IF steps = <<>> THEN 0 ELSE steps[1].num
      cut == IF \E k \in DOMAIN steps : steps[k].step \in {"new", "newirr"} /\ steps[k].num >= r.cfg.stop
             THEN (CHOOSE k \in DOMAIN steps : steps[k].step \in {"new", "newirr"} /\ steps[k].num >= r.cfg.stop /\
                        \A k2 \in 1..(k - 1) : ~(steps[k2].step \in {"new", "newirr"} /\ steps[k2].num >= r.cfg.stop)) - 1
             ELSE Len(steps)
      pred == PMsgs(PInit, [i \in 1..cut |-> ToStep(steps[i])], r.cfg.start, FALSE)
      seen == SelectSeq(o.resp, LAMBDA m : m.kind = "undo" \/ (m.kind = "data" /\ m.num >= first))
      obs == [i \in DOMAIN seen |-> [k |-> seen[i].kind, b |-> [h |-> seen[i].num, br |-> seen[i].id]]]
  IN IF o.panic # "" \/ o.err # "" \/ steps = <<>> \/ (\E k \in DOMAIN steps : steps[k].step = "undo" /\ steps[k].junction = "") THEN <<>>
     ELSE F(pred = obs, "drift:fork_messages_differ_from_pipeline_model")

ForkProps(sig) == IF Len(sig) >= 22 /\ SubSeq(sig, 1, 22) = "data_below_start_block" THEN <<"C03", "C04">>
                  ELSE IF Len(sig) >= 14 /\ SubSeq(sig, 1, 14) = "request_failed" THEN <<"C03", "C01">>
                  ELSE IF sig = "store_size_drifted_after_reorg" THEN <<"C03", "C11">> ELSE <<"C03">>
RECURSIVE TagFork(_)
TagFork(sigs) == IF sigs = <<>> THEN <<>>
                 ELSE LET ps == ForkProps(Head(sigs)) IN [i \in DOMAIN ps |-> ps[i] \o ":" \o Head(sigs)] \o TagFork(Tail(sigs))

(* C12 / C03: the client of a fork history reconnects with the cursor of a message it received (record "forkresume").
   The junction is computed HERE from the fork tree (parent links of the arrival list) and the canonical chain rebuilt from
   the steps; the harness's own resolver answer is logged but not trusted. Expected: when the cursor's block was orphaned,
   first an undo signal designating the junction, then (in both cases) exactly the canonical blocks above the junction /
   above the cursor's block; the client model continues from what the client held when it received that message. *)
ForkResumeFails(r) ==
  LET steps == r.steps  o == r.obs  c == r.cfg
      first == IF steps = <<>> THEN 0 ELSE steps[1].num
      pre == IF first <= LowestInit(prog) THEN <<>>
             ELSE [k \in 1..(first - LowestInit(prog)) |-> Blk(LowestInit(prog) + k - 1)]
      canonEnd == CanonAfter(steps, Len(steps))
      full == pre \o canonEnd
      res == RunChain(prog, full)
      OnFull(id) == \E j \in DOMAIN full : full[j].id = id
      Par(id) == IF \E i \in DOMAIN r.arrival : r.arrival[i].id = id
                 THEN r.arrival[CHOOSE i \in DOMAIN r.arrival : r.arrival[i].id = id].parent ELSE ""
      RECURSIVE Anc(_, _)
      Anc(id, fuel) == IF OnFull(id) \/ id = "" \/ fuel = 0 THEN id ELSE Anc(Par(id), fuel - 1)
      b == [num |-> r.from.curnum, id |-> r.from.curid]          \* the block the cursor designates
      jid == Anc(b.id, 64)
      known == OnFull(jid)
      jnum == IF known THEN full[CHOOSE j \in DOMAIN full : full[j].id = jid].num ELSE 0
      forked == jid # b.id
      expBlocks == SelectSeq(full, LAMBDA x : x.num > jnum /\ x.num < c.stop)
      datas == SelectSeq(o.resp, LAMBDA m : m.kind = "data")
      undos == SelectSeq(o.resp, LAMBDA m : m.kind = "undo")
      expectedFor(h) == LET idx == CHOOSE i \in DOMAIN full : full[i].id = h.id IN PayloadOf(res[idx], OutMod.name)
      whole == r.before \o o.resp
      client == ClientAfter(whole, Len(whole))
      lo == Max(r.base, c.start)
      heldFork == SelectSeq(client.held, LAMBDA h : h.num >= lo)
      canonFork == SelectSeq(canonEnd, LAMBDA x : x.num >= lo /\ x.num < c.stop)
  IN
  IF o.panic # "" THEN <<"panic">>
  ELSE IF o.err # "" THEN <<FailSig(r)>>
  ELSE IF ~known THEN <<>>
  ELSE
     F(forked => (o.resp # <<>> /\ o.resp[1].kind = "undo"), "resume_from_forked_cursor_without_undo_signal_first")
  \o F((forked /\ o.resp # <<>> /\ o.resp[1].kind = "undo") => (o.resp[1].num = jnum /\ o.resp[1].id = jid),
       "resume_undo_signal_does_not_designate_the_junction")
  \o F(Len(undos) <= (IF forked THEN 1 ELSE 0), "resume_sends_undo_signal_without_fork")
  \o F([i \in DOMAIN datas |-> datas[i].id] = [i \in DOMAIN expBlocks |-> expBlocks[i].id],
       "resumed_stream_is_not_the_canonical_chain_right_after_the_junction")
  \o F(\A i \in DOMAIN datas : OnFull(datas[i].id) => datas[i].payload = expectedFor(datas[i]),
       "resumed_payload_differs_from_canonical_execution")
  \o F(\A i \in DOMAIN o.resp : o.resp[i].curnum = o.resp[i].num /\ o.resp[i].curid = o.resp[i].id, "resumed_cursor_designates_other_block")
  \o F(client.ok, "reconnected_client_sees_two_blocks_at_same_height_without_undo")
  \o F(client.undoOK, "reconnected_client_undo_signal_designates_block_it_does_not_hold")
  \o F([i \in DOMAIN heldFork |-> heldFork[i].id] = [i \in DOMAIN canonFork |-> canonFork[i].id],
       "reconnected_client_does_not_converge_on_canonical_chain")

\* the message-level transcription (Pipeline.tla: PResume for the cursor, then a fresh pipeline fed the chain; model-checked
\* with reconnections by MCReconnect) against the observed resumed stream (drift, not a verdict)
ForkResumeDrift(r) ==
  LET steps == r.steps  o == r.obs  c == r.cfg
      first == IF steps = <<>> THEN 0 ELSE steps[1].num
      pre == IF first <= LowestInit(prog) THEN <<>>
             ELSE [k \in 1..(first - LowestInit(prog)) |-> Blk(LowestInit(prog) + k - 1)]
      full == pre \o CanonAfter(steps, Len(steps))
      OnFull(id) == \E j \in DOMAIN full : full[j].id = id
      Par(id) == IF \E i \in DOMAIN r.arrival : r.arrival[i].id = id
                 THEN r.arrival[CHOOSE i \in DOMAIN r.arrival : r.arrival[i].id = id].parent ELSE ""
      RECURSIVE Anc(_, _)
      Anc(id, fuel) == IF OnFull(id) \/ id = "" \/ fuel = 0 THEN id ELSE Anc(Par(id), fuel - 1)
      jid == Anc(r.from.curid, 64)
      jnum == IF OnFull(jid) THEN full[CHOOSE j \in DOMAIN full : full[j].id = jid].num ELSE 0
      res == PResume([h |-> r.from.curnum, br |-> r.from.curid], [h |-> jnum, br |-> jid])
      fed == SelectSeq(full, LAMBDA x : x.num < c.stop)
      pred == res.msgs \o PMsgs(PInit, [i \in DOMAIN fed |-> [k |-> "new", b |-> [h |-> fed[i].num, br |-> fed[i].id], j |-> NoBlk]], res.start, TRUE)
      obs == [i \in DOMAIN o.resp |-> [k |-> o.resp[i].kind, b |-> [h |-> o.resp[i].num, br |-> o.resp[i].id]]]
  IN IF o.panic # "" \/ o.err # "" \/ ~OnFull(jid) THEN <<>>
     ELSE F(pred = obs, "drift:resumed_messages_differ_from_pipeline_model")

ForkResumeProps(sig) == IF Len(sig) >= 6 /\ SubSeq(sig, 1, 6) = "resume" THEN <<"C12", "C03">>
                        ELSE IF Len(sig) >= 14 /\ SubSeq(sig, 1, 14) = "request_failed" THEN <<"C03", "C12", "C01">>
                        ELSE <<"C03">>
RECURSIVE TagForkResume(_)
TagForkResume(sigs) == IF sigs = <<>> THEN <<>>
                       ELSE LET ps == ForkResumeProps(Head(sigs)) IN [i \in DOMAIN ps |-> ps[i] \o ":" \o Head(sigs)] \o TagForkResume(Tail(sigs))

ParseFrom(cur) == \* "resume:<num>"
  LET digits == SubSeq(cur, 8, Len(cur))
      RECURSIVE V(_, _)
      V(i, acc) == IF i > Len(digits) THEN acc
                   ELSE V(i + 1, acc * 10 + (CHOOSE d \in 0..9 : ToString(d) = SubSeq(digits, i, i)))
  IN V(1, 0)

\* what the oracle expects for the run's range (written next to a failing record to ease diagnosis)
Debug(r) ==
  IF "VERIF_DEBUG" \notin DOMAIN IOEnv THEN <<>>
  ELSE [exp |-> [n \in r.cfg.start..Min(r.cfg.stop - 1, MaxBlock) |-> <<n, PayloadOf(Res(n), OutOf(r).name), Res(n).outs>>],
        kv |-> IF r.cfg.stop - 1 <= MaxBlock THEN Res(r.cfg.stop - 1).kv ELSE <<>>,
        H |-> Handoff(r.cfg.prod, r.cfg.start, r.cfg.stop, r.cfg.libok, r.cfg.lib, StateRequiredAt(StoreInits(UProg(r)), r.cfg.start), r.cfg.seg)]

Init == l = 1 /\ bad = <<>> /\ drift = <<>> /\ prog = <<>> /\ seg = 0 /\ ref = <<>> /\ orig = <<>>
Next ==
  /\ l <= Len(Trace)
  /\ LET r == Trace[l] IN
     IF r.ev = "prog" THEN
        /\ prog' = r.prog /\ seg' = r.seg /\ ref' = RunChain(r.prog, FinalChain(r.prog))
        /\ orig' = <<>>
        /\ UNCHANGED <<bad, drift>>
     ELSE IF r.ev \in {"sinit", "supd", "send"} THEN UNCHANGED <<bad, drift, prog, seg, ref, orig>>     \* scheduler trace: TraceSched
     ELSE IF r.ev = "forkrun" THEN
        LET f == TagFork(ForkFails(r)) IN
        /\ bad' = IF f = <<>> THEN bad ELSE Append(bad, [i |-> l, why |-> f, dbg |-> <<>>])
        /\ drift' = LET d == ForkDrift(r) IN IF d = <<>> THEN drift ELSE Append(drift, [i |-> l, why |-> d])
        /\ UNCHANGED <<prog, seg, ref, orig>>
     ELSE IF r.ev = "forkresume" THEN
        LET f == TagForkResume(ForkResumeFails(r)) IN
        /\ bad' = IF f = <<>> THEN bad ELSE Append(bad, [i |-> l, why |-> f, dbg |-> <<>>])
        /\ drift' = LET d == ForkResumeDrift(r) IN IF d = <<>> THEN drift ELSE Append(drift, [i |-> l, why |-> d])
        /\ UNCHANGED <<prog, seg, ref, orig>>
     ELSE
        LET from == IF r.cfg.cursor = "" THEN 0 ELSE ParseFrom(r.cfg.cursor)
            f == TagAll(RunFails(r, from) \o ResumeFails(r, from), r)
        IN /\ bad' = IF f = <<>> THEN bad ELSE Append(bad, [i |-> l, why |-> f, dbg |-> Debug(r)])
           /\ orig' = IF r.cfg.cursor = "" THEN Datas(r.obs) ELSE orig     \* the original stream of the scenario
           /\ UNCHANGED <<drift, prog, seg, ref>>
  /\ l' = l + 1

Done == l = Len(Trace) + 1
WriteVerdict == Done => JsonSerialize(IOEnv.VERIF_OUT, [n |-> Len(Trace), bad |-> bad, drift |-> drift])
=============================================================================
