---------------------------- MODULE TraceSystem ----------------------------
(* End-to-end trace validation (C01 C04 C07 C15 C16): real tier1 requests (scheduler, in-process   *)
(* tier2 jobs, squasher, walker, linear pipeline) on generated module programs.  A "prog" record    *)
(* starts a scenario (one program, one cache directory); every "run" record is one request with     *)
(* its configuration and everything observed.  The oracle is SeqExec of Exec.tla; the hand-off is   *)
(* the reference of Plan.tla.                                                                       *)
EXTENDS Exec, Plan, Json, IOUtils

Trace == ndJsonDeserialize(IOEnv.VERIF_TRACE)
VARIABLES l, bad, drift, prog, seg, ref, orig
vars == <<l, bad, drift, prog, seg, ref, orig>>
F(cond, sig) == IF cond THEN <<>> ELSE <<sig>>
KVEq(a, b) == DOMAIN a = DOMAIN b /\ \A k \in DOMAIN a : a[k] = b[k]   \* (an empty JSON object is an empty record, not <<>>)

MaxBlock == 48
Blk(n) == [num |-> n, id |-> ToString(n) \o "a", branch |-> 0]
LowestInit(p) == SetMin({p[i].init : i \in DOMAIN p})
FinalChain(p) == [k \in 1..(MaxBlock - LowestInit(p) + 1) |-> Blk(LowestInit(p) + k - 1)]
\* reference results for block n (ref is RunChain over the final chain from the lowest initial block)
Res(n) == ref[n - LowestInit(prog) + 1]
OutMod == prog[Len(prog)]
StoreInits(p) == LET s == SelectSeq(p, LAMBDA m : m.kind = "store") IN [i \in DOMAIN s |-> s[i].init]

Datas(o) == SelectSeq(o.resp, LAMBDA x : x.kind = "data")

\* Features of a failing request computed from the cache content it started on (known-finding signatures, Appendix D):
\* the output module's cached output exists for some segment while a store's snapshot for that segment is missing
Has(fs, mod, kind, a, b) == \E i \in DOMAIN fs : ~fs[i].tmp /\ fs[i].mod = mod /\ fs[i].kind = kind /\ fs[i].start = a /\ fs[i].end = b
OutputCachedButStoreSnapshotMissing(r) ==
  LET fs == r.filesBefore IN
  \E i \in DOMAIN fs : ~fs[i].tmp /\ fs[i].mod = OutMod.name /\ fs[i].kind = "output" /\
     \E j \in DOMAIN prog : prog[j].kind = "store" /\ prog[j].init < fs[i].end /\
        ~Has(fs, prog[j].name, "kv", prog[j].init, fs[i].end) /\
        ~Has(fs, prog[j].name, "partial", Max(prog[j].init, fs[i].start - (fs[i].start % r.cfg.seg)), fs[i].end)
\* production request whose back-filled range lies entirely below every store's initial block although the graph has
\* store stages: NewStages drops the store stages and the unit's stage index no longer is the graph's stage index
StoreStagesDroppedFromMatrix(r) ==
  LET c == r.cfg
      H == Handoff(c.prod, c.start, c.stop, c.libok, c.lib, StateRequiredAt(StoreInits(prog), c.start), c.seg) IN
  c.prod /\ c.start < H /\ StoreInits(prog) # <<>> /\ \A i \in DOMAIN StoreInits(prog) : StoreInits(prog)[i] >= H
\* the full snapshots of some store found in the cache are not a prefix of the segment boundaries (a later one exists
\* while an earlier one is missing): the scheduler takes the later unit for Completed and starts a job of a higher
\* stage whose input snapshot at the segment START does not exist yet (stages.go dependenciesCompleted)
SnapshotHole(r) ==
  LET fs == r.filesBefore  sg == r.cfg.seg IN
  \E i \in DOMAIN fs : ~fs[i].tmp /\ fs[i].kind = "kv" /\
     \E e \in (fs[i].start + 1)..(fs[i].end - 1) : e % sg = 0 /\ ~Has(fs, fs[i].mod, "kv", fs[i].start, e)
FailSig(r) ==
  IF SnapshotHole(r) THEN "request_failed:store_snapshot_hole"
  ELSE IF OutputCachedButStoreSnapshotMissing(r) THEN "request_failed:output_cached_but_store_snapshot_missing"
  ELSE IF StoreStagesDroppedFromMatrix(r) THEN "request_failed:store_stages_dropped_stage_index_shift"
  ELSE "request_failed"

RunFails(r, from) ==
  LET c == r.cfg  o == r.obs  ds == Datas(o)
      S == c.start  E == c.stop
      H == Handoff(c.prod, S, E, c.libok, c.lib, StateRequiredAt(StoreInits(prog), S), c.seg)
      nums == {ds[i].num : i \in DOMAIN ds}
      resumed == c.cursor # ""
      \* when resuming from the cursor of delivered block b, the stream is that of a request starting at b+1
      S2 == IF resumed THEN from + 1 ELSE S
  IN
  IF o.panic # "" THEN <<"panic">>
  ELSE IF \E i \in DOMAIN ds : ds[i].unparsed THEN <<"unparsable_payload">>
  ELSE
     F(o.err = "", FailSig(r))
  \o F(\A i \in DOMAIN ds : ds[i].num >= S2 /\ ds[i].num < E, "block_outside_requested_range")
  \o F(\A i \in 1..(Len(ds) - 1) : ds[i].num < ds[i + 1].num, "not_strictly_increasing")
  \o F(\A i \in DOMAIN ds : ds[i].curnum = ds[i].num /\ ds[i].curid = ds[i].id, "cursor_designates_other_block")
  \o F(\A i \in DOMAIN ds : ds[i].id = Blk(ds[i].num).id, "block_id")
  \o F(\A i \in DOMAIN ds : ds[i].num <= MaxBlock => ds[i].payload = PayloadOf(Res(ds[i].num), OutMod.name), "payload_differs_from_sequential_execution")
     \* blocks may be missing only below the hand-off (production back-fill) and only when their output is empty
  \o F(o.err # "" \/ \A n \in S2..(E - 1) : n \in nums \/ (c.prod /\ n < H /\ n <= MaxBlock /\ PayloadOf(Res(n), OutMod.name) = <<>>),
       "block_missing")
  \o F(o.err # "" \/ ~o.hasmap \/ E > MaxBlock \/
       \A sname \in DOMAIN o.stores : LET pol == ModByName(prog, sname).body.pol IN
           KVEq(o.stores[sname], VisibleKV(pol, Res(E - 1).kv[sname])),
       "store_map_differs_from_sequential_execution")

\* resumption: the resumed stream equals the suffix of the original one after the cursor's block
ResumeFails(r, from) ==
  LET ds == Datas(r.obs)  od == orig
      suffix == SelectSeq(od, LAMBDA x : x.num > from) IN
  IF r.cfg.cursor = "" \/ r.obs.err # "" THEN <<>>
  ELSE F(Len(ds) = Len(suffix) /\ \A i \in DOMAIN ds : ds[i].num = suffix[i].num /\ ds[i].payload = suffix[i].payload /\ ds[i].id = suffix[i].id,
         "resumed_stream_is_not_the_suffix")

\* which properties a failure of this run decides: C01 always; C04 for stream-shape predicates and resumptions;
\* C07 when the run started on a subset of cache files; C15 when the output module is block-filtered; C16 under faults
ShapeSigs == {"block_outside_requested_range", "not_strictly_increasing", "cursor_designates_other_block", "block_missing",
              "resumed_stream_is_not_the_suffix", "panic"}
Prefix(label, p) == Len(label) >= Len(p) /\ SubSeq(label, 1, Len(p)) = p
PropsOf(sig, r) ==
     <<"C01">>
  \o (IF sig \in ShapeSigs \/ Prefix(r.cfg.label, "resume") THEN <<"C04">> ELSE <<>>)
  \o (IF Prefix(r.cfg.label, "subsets") THEN <<"C07">> ELSE <<>>)
  \o (IF OutMod.filter # <<>> THEN <<"C15">> ELSE <<>>)
  \o (IF Prefix(r.cfg.label, "faults") THEN <<"C16">> ELSE <<>>)
RECURSIVE TagAll(_, _)
TagAll(sigs, r) ==
  IF sigs = <<>> THEN <<>>
  ELSE LET ps == PropsOf(Head(sigs), r) IN [i \in DOMAIN ps |-> ps[i] \o ":" \o Head(sigs)] \o TagAll(Tail(sigs), r)

ParseFrom(cur) == \* "resume:<num>"
  LET digits == SubSeq(cur, 8, Len(cur))
      RECURSIVE V(_, _)
      V(i, acc) == IF i > Len(digits) THEN acc
                   ELSE V(i + 1, acc * 10 + (CHOOSE d \in 0..9 : ToString(d) = SubSeq(digits, i, i)))
  IN V(1, 0)

\* what the oracle expects for the run's range (written next to a failing record to ease diagnosis)
Debug(r) ==
  IF "VERIF_DEBUG" \notin DOMAIN IOEnv THEN <<>>
  ELSE [exp |-> [n \in r.cfg.start..Min(r.cfg.stop - 1, MaxBlock) |-> <<n, PayloadOf(Res(n), OutMod.name), Res(n).outs>>],
        kv |-> IF r.cfg.stop - 1 <= MaxBlock THEN Res(r.cfg.stop - 1).kv ELSE <<>>,
        H |-> Handoff(r.cfg.prod, r.cfg.start, r.cfg.stop, r.cfg.libok, r.cfg.lib, StateRequiredAt(StoreInits(prog), r.cfg.start), r.cfg.seg)]

Init == l = 1 /\ bad = <<>> /\ drift = <<>> /\ prog = <<>> /\ seg = 0 /\ ref = <<>> /\ orig = <<>>
Next ==
  /\ l <= Len(Trace)
  /\ LET r == Trace[l] IN
     IF r.ev = "prog" THEN
        /\ prog' = r.prog /\ seg' = r.seg /\ ref' = RunChain(r.prog, FinalChain(r.prog))
        /\ orig' = <<>>
        /\ UNCHANGED <<bad, drift>>
     ELSE
        LET from == IF r.cfg.cursor = "" THEN 0 ELSE ParseFrom(r.cfg.cursor)
            f == TagAll(RunFails(r, from) \o ResumeFails(r, from), r)
        IN /\ bad' = IF f = <<>> THEN bad ELSE Append(bad, [i |-> l, why |-> f, dbg |-> Debug(r)])
           /\ orig' = IF r.cfg.cursor = "" THEN Datas(r.obs) ELSE orig     \* the original stream of the scenario
           /\ UNCHANGED <<drift, prog, seg, ref>>
  /\ l' = l + 1

Done == l = Len(Trace) + 1
WriteVerdict == Done => JsonSerialize(IOEnv.VERIF_OUT, [n |-> Len(Trace), bad |-> bad, drift |-> drift])
=============================================================================
