CONSTANTS Pol = "sine"
 Ords = {0, 1}
 Prefixes = {"", "a", "ab"}
 MaxOps = 3
 CheckReads = FALSE
 AnyPre = FALSE
 MaxBlocks = 4
INIT Init
NEXT Next
INVARIANT MergedEqualsSequential
INVARIANT ActionChecks
INVARIANT SizeExact
CHECK_DEADLOCK FALSE
