-------------------------------- MODULE Wire --------------------------------
(* Protobuf wire format (varint, tag, length-delimited) and byte-level decoders for the two     *)
(* hand-encoded cache file formats (C18):                                                        *)
(*   StoreData { map<string,bytes> kv = 1; repeated string delete_prefixes = 2; }                *)
(*   Array { repeated Item items = 1; }  Item { uint64 block_num = 1; string block_id = 2;       *)
(*           bytes payload = 3; Timestamp timestamp = 4 {int64 seconds = 1; int32 nanos = 2};    *)
(*           string cursor = 5; }                                                                *)
(* Bytes are sequences of integers 0..255.  Varints are kept as little-endian 7-bit LIMB lists   *)
(* (TLC integers are 32-bit); small ones are converted to integers.  The decoders are TOTAL:     *)
(* malformed input gives ok = FALSE instead of an evaluation error.                              *)
EXTENDS Integers, Sequences, FiniteSets, TLC

ReadVarint(bs, i) ==   \* [ok, limbs, next]
  LET RECURSIVE Go(_, _)
      Go(j, acc) == IF j > Len(bs) \/ Len(acc) >= 10 THEN [ok |-> FALSE, limbs |-> acc, next |-> j]
                    ELSE IF bs[j] >= 128 THEN Go(j + 1, Append(acc, bs[j] - 128))
                    ELSE [ok |-> TRUE, limbs |-> Append(acc, bs[j]), next |-> j + 1]
  IN Go(i, <<>>)

Small(l) == Len(l) <= 4
ToInt(l) == (IF Len(l) >= 1 THEN l[1] ELSE 0) + (IF Len(l) >= 2 THEN 128 * l[2] ELSE 0)
          + (IF Len(l) >= 3 THEN 16384 * l[3] ELSE 0) + (IF Len(l) >= 4 THEN 2097152 * l[4] ELSE 0)

\* canonical limbs: no trailing zero limb except for the single limb <<0>>
Canon(l) == LET RECURSIVE Trim(_)
                Trim(s) == IF Len(s) > 1 /\ s[Len(s)] = 0 THEN Trim(SubSeq(s, 1, Len(s) - 1)) ELSE s
            IN Trim(l)

\* all fields of the message occupying bs[lo..hi]: [ok, fs] with fs = Seq([f, wt, limbs, lo, hi])
Fields(bs, lo, hi) ==
  LET RECURSIVE Go(_, _)
      Go(i, acc) ==
        IF i > hi THEN [ok |-> (i = hi + 1), fs |-> acc]
        ELSE LET t == ReadVarint(bs, i) IN
          IF ~t.ok \/ ~Small(t.limbs) \/ t.next > hi + 1 THEN [ok |-> FALSE, fs |-> acc]
          ELSE LET tag == ToInt(t.limbs)  f == tag \div 8  wt == tag % 8 IN
            IF f = 0 THEN [ok |-> FALSE, fs |-> acc]
            ELSE IF wt = 0 THEN
              LET v == ReadVarint(bs, t.next) IN
                IF ~v.ok \/ v.next > hi + 1 THEN [ok |-> FALSE, fs |-> acc]
                ELSE Go(v.next, Append(acc, [f |-> f, wt |-> 0, limbs |-> v.limbs, lo |-> 0, hi |-> 0]))
            ELSE IF wt = 2 THEN
              LET n == ReadVarint(bs, t.next) IN
                IF ~n.ok \/ ~Small(n.limbs) \/ n.next + ToInt(n.limbs) > hi + 1 THEN [ok |-> FALSE, fs |-> acc]
                ELSE Go(n.next + ToInt(n.limbs),
                        Append(acc, [f |-> f, wt |-> 2, limbs |-> <<>>, lo |-> n.next, hi |-> n.next + ToInt(n.limbs) - 1]))
            ELSE [ok |-> FALSE, fs |-> acc]
  IN Go(lo, <<>>)

Bytes(bs, lo, hi) == IF hi < lo THEN <<>> ELSE SubSeq(bs, lo, hi)
LastOf(fs, f, wt) == LET idx == {i \in DOMAIN fs : fs[i].f = f /\ fs[i].wt = wt} IN
  IF idx = {} THEN 0 ELSE CHOOSE i \in idx : \A j \in idx : j <= i

------------------------------------------------------------------------
(* StoreData *)
DecodeEntry(bs, lo, hi) ==
  LET r == Fields(bs, lo, hi) IN
  IF ~r.ok THEN [ok |-> FALSE, k |-> <<>>, v |-> <<>>]
  ELSE LET ki == LastOf(r.fs, 1, 2)  vi == LastOf(r.fs, 2, 2) IN
    [ok |-> \A i \in DOMAIN r.fs : r.fs[i].f \in {1, 2} /\ r.fs[i].wt = 2,
     k |-> IF ki = 0 THEN <<>> ELSE Bytes(bs, r.fs[ki].lo, r.fs[ki].hi),
     v |-> IF vi = 0 THEN <<>> ELSE Bytes(bs, r.fs[vi].lo, r.fs[vi].hi)]

DecodeStoreData(bs) ==
  LET r == Fields(bs, 1, Len(bs))
      es == SelectSeq(r.fs, LAMBDA x : x.f = 1)
      ps == SelectSeq(r.fs, LAMBDA x : x.f = 2)
      dec == [i \in DOMAIN es |-> DecodeEntry(bs, es[i].lo, es[i].hi)] IN
  [ok |-> r.ok /\ (\A i \in DOMAIN r.fs : r.fs[i].f \in {1, 2} /\ r.fs[i].wt = 2) /\ (\A i \in DOMAIN dec : dec[i].ok),
   kv |-> {<<dec[i].k, dec[i].v>> : i \in DOMAIN dec},
   n  |-> Len(es),
   del |-> [i \in DOMAIN ps |-> Bytes(bs, ps[i].lo, ps[i].hi)]]

------------------------------------------------------------------------
(* Array of Item *)
VarOf(fs, f) == LET i == LastOf(fs, f, 0) IN IF i = 0 THEN <<0>> ELSE Canon(fs[i].limbs)
LenOf(bs, fs, f) == LET i == LastOf(fs, f, 2) IN IF i = 0 THEN <<>> ELSE Bytes(bs, fs[i].lo, fs[i].hi)

DecodeItem(bs, lo, hi) ==
  LET r == Fields(bs, lo, hi)
      ti == LastOf(r.fs, 4, 2)
      tr == IF ti = 0 THEN [ok |-> TRUE, fs |-> <<>>] ELSE Fields(bs, r.fs[ti].lo, r.fs[ti].hi) IN
  [ok |-> r.ok /\ tr.ok /\ (\A i \in DOMAIN r.fs : (r.fs[i].f \in {2, 3, 4, 5} /\ r.fs[i].wt = 2) \/ (r.fs[i].f = 1 /\ r.fs[i].wt = 0))
             /\ (\A i \in DOMAIN tr.fs : tr.fs[i].f \in {1, 2} /\ tr.fs[i].wt = 0),
   num |-> VarOf(r.fs, 1), id |-> LenOf(bs, r.fs, 2), payload |-> LenOf(bs, r.fs, 3), cursor |-> LenOf(bs, r.fs, 5),
   hasTs |-> ti # 0, secs |-> VarOf(tr.fs, 1), nanos |-> VarOf(tr.fs, 2)]

DecodeArray(bs) ==
  LET r == Fields(bs, 1, Len(bs))
      dec == [i \in DOMAIN r.fs |-> DecodeItem(bs, r.fs[i].lo, r.fs[i].hi)] IN
  [ok |-> r.ok /\ (\A i \in DOMAIN r.fs : r.fs[i].f = 1 /\ r.fs[i].wt = 2) /\ (\A i \in DOMAIN dec : dec[i].ok),
   items |-> {[num |-> dec[i].num, id |-> dec[i].id, payload |-> dec[i].payload, cursor |-> dec[i].cursor,
               hasTs |-> dec[i].hasTs, secs |-> dec[i].secs, nanos |-> dec[i].nanos] : i \in DOMAIN dec},
   n |-> Len(r.fs)]

------------------------------------------------------------------------
(* reference encoder (for the design-level round-trip theorem) *)
EncVarintInt(n) == LET RECURSIVE E(_)
                       E(x) == IF x < 128 THEN <<x>> ELSE <<128 + (x % 128)>> \o E(x \div 128)
                   IN E(n)
EncLimbs(l) == [i \in DOMAIN l |-> IF i < Len(l) THEN 128 + l[i] ELSE l[i]]
EncLen(f, b) == EncVarintInt(f * 8 + 2) \o EncVarintInt(Len(b)) \o b
EncEntry(k, v) == (IF k = <<>> THEN <<>> ELSE EncLen(1, k)) \o (IF v = <<>> THEN <<>> ELSE EncLen(2, v))
==============================================================================
