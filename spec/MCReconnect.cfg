CONSTANTS MaxH = 6
 Branches = {"a", "b"}
 StartC = 1
 MaxReorgs = 3
 MaxReconnects = 2
SPECIFICATION Spec
INVARIANT NoBadMessage
INVARIANT ClientIsCanonical
CHECK_DEADLOCK FALSE
