----------------------------- MODULE TraceFilter -----------------------------
(* C15 trace validation: the AST produced by the REAL parser, the bitmap selected by             *)
(* RoaringBitmapsApply on a shared index, the per-block answers of KeysApply, BlockIndex.Skip /   *)
(* SkipFromKeys, and the index content after the evaluation, all judged against Filter.tla.       *)
EXTENDS Filter, Json, IOUtils
Trace == ndJsonDeserialize(IOEnv.VERIF_TRACE)
VARIABLES l, bad, drift
vars == <<l, bad, drift>>
F(cond, sig) == IF cond THEN <<>> ELSE <<sig>>
SeqSet(s) == {s[i] : i \in DOMAIN s}

\* key set of the j-th block of the record
KeysOf(r, j) == SeqSet(r.assign["b" \o ToString(r.blocks[j])])
Selected(r) == {r.blocks[j] : j \in {i \in DOMAIN r.blocks : EvalKeys(r.ast, KeysOf(r, i))}}
Idx(r) == [k \in DOMAIN r.index |-> SeqSet(r.index[k])]

Fails(r) ==
  IF r.parseErr # "" THEN <<>>                                  \* rejected by the parser: not an accepted expression
  ELSE IF r.panic # "" THEN <<"C15:panic_on_accepted_expression">>
  ELSE
     F(SeqSet(r.bitmap) = Selected(r), "C15:index_selects_other_blocks_than_keys")
  \o F(SeqSet(r.bitmap) = EvalBitmap(r.ast, Idx(r)), "C15:bitmap_evaluator_ne_spec")
  \o F(\A j \in DOMAIN r.blocks : r.perBlock[j] = EvalKeys(r.ast, KeysOf(r, j)), "C15:keys_evaluator_ne_spec")
  \o F(\A j \in DOMAIN r.blocks : r.skip[j] = ~EvalKeys(r.ast, KeysOf(r, j)), "C15:skip_with_index_ne_filter")
  \o F(\A j \in DOMAIN r.blocks : r.skipKeys[j] = ~EvalKeys(r.ast, KeysOf(r, j)), "C15:skip_without_index_ne_filter")
  \o F(r.indexAfter = r.index, "C15:evaluation_modified_the_shared_index")

Init == l = 1 /\ bad = <<>> /\ drift = <<>>
Next ==
  /\ l <= Len(Trace)
  /\ LET r == Trace[l]  f == Fails(r) IN
       /\ bad' = IF f = <<>> THEN bad ELSE Append(bad, [i |-> l, why |-> f])
       /\ drift' = drift
  /\ l' = l + 1
Done == l = Len(Trace) + 1
WriteVerdict == Done => JsonSerialize(IOEnv.VERIF_OUT, [n |-> Len(Trace), bad |-> bad, drift |-> drift])
==============================================================================
