CONSTANTS KindsC <- K3
 NSeg = 3
 MapFirstC = 0
 WorkersC = 2
 StartSegC = 0
 CacheMode = "any"
SPECIFICATION Spec
INVARIANT NoInvalidState
INVARIANT JobInputsComplete
INVARIANT NoFailure
INVARIANT MergeOnceInOrder
INVARIANT WorkersConsistent
INVARIANT OutcomeOK
PROPERTY Terminates
CHECK_DEADLOCK FALSE
