------------------------------ MODULE TraceSched ------------------------------
(* C05 trace validation: every Scheduler.Update of real tier1 runs, recorded by the verif hook at   *)
(* the END of Update (the loop's only critical section): message, unit matrix, segmentCompleted,    *)
(* workers, walker, completion flags.  Each step is replayed through Sched.tla's Update on the      *)
(* OBSERVED pre-state: the C05 predicates are judged on observed states, any difference with the    *)
(* specification's post-state is reported as drift, and the state is re-synchronised.               *)
EXTENDS Sched, Json, IOUtils

Trace == ndJsonDeserialize(IOEnv.VERIF_TRACE)
VARIABLES l, bad, drift, lastMerged, active, gap
vars == <<l, bad, drift, lastMerged, active, gap, cfg, st, segDone, shadowable, busy, walkerSeg, walkerWorking, outDone, storesDone, invalid>>
F(cond, sig) == IF cond THEN <<>> ELSE <<sig>>

CfgOf(r) ==
  LET i == r.internals IN
  [kinds |-> i.Kinds, first |-> i.First, last |-> i.Last, gfirst |-> i.GlobalFirst, glast |-> i.GlobalLast, offset |-> i.SegmentOffset,
   hasStores |-> i.HasStoreSegmenter, storeFirst |-> i.StoreFirst, storeLast |-> i.StoreLast, storeEmpty |-> i.StoreEmpty,
   hasMap |-> i.HasMapSegmenter, mapFirst |-> i.MapFirst, mapLast |-> i.MapLast,
   hasWalker |-> r.walker.has, walkerFirst |-> r.walker.first, walkerLast |-> r.walker.last, outputIsIndex |-> i.OutputIsIndex, workers |-> r.workers]

\* matrix from the rows of StatesString() (only allocated segments are printed; the others are Pending)
MatrixOf(c, rows) ==
  [seg \in c.offset..c.glast |-> [i \in 1..Len(c.kinds) |->
     LET k == seg - c.offset + 1 IN IF k <= Len(rows[i]) THEN SubSeq(rows[i], k, k) ELSE "."]]

\* Scheduler.Init(): CmdStartMerge = CmdTryMerge for every store stage, in order (MarkSegmentMerging happens right away)
RECURSIVE InitMerges(_, _, _)
InitMerges(m, sd, s) ==
  IF s > NStages - 1 THEN m
  ELSE IF Kind(s) # "S" THEN InitMerges(m, sd, s + 1)
  ELSE InitMerges(TryMerge(m, sd, s).m, sd, s + 1)

\* the unit that became Scheduled in this step, if any
NewlyScheduled(pre, post) == {<<seg, s>> \in Segs \X Stages : Get(pre, seg, s) # "S" /\ Get(post, seg, s) = "S"}

StepFails(r, u, post) ==
     F(u.bad = "", "C05:update_reaches_invalid_transition")
  \o F(r.busy >= 0 /\ r.busy <= cfg.workers, "C05:worker_count_out_of_bounds")
  \o F(r.t # "MergeFinished" \/ r.seg > lastMerged[r.stage + 1], "C05:store_segment_merged_twice_or_out_of_order")
  \o (LET Offs(un) == {j \in 0..(un[2] - 1) : Kind(j) = "S" /\ un[1] - 1 >= First(j) /\ un[1] - 1 >= cfg.offset /\ Get(post, un[1] - 1, j) \notin {"C", "N"}}
           early == {un \in NewlyScheduled(st, post) : Offs(un) # {}}
           \* known-finding features, computed per prematurely started unit from the step itself:
           \*  - the job is the FIRST segment of its stage (dependenciesCompleted returns true at once), the stage starting later than a store below it
           \*  - the lower unit of the SAME segment is Completed from a cache file although the segment before is not (snapshot gap)
           \*  - an INDIRECT lower stage is PartialPresent/Shadowed at the same segment: only the direct parent's previous segment is looked at
           Feat(un) == IF un[1] <= First(un[2]) THEN ":first_segment_of_later_starting_stage"
                       ELSE IF \A j \in Offs(un) : Get(post, un[1], j) = "C" THEN ":unit_completed_by_file_after_a_gap"
                       ELSE IF \A j \in Offs(un) : Get(post, un[1], j) = "C" \/ (j < un[2] - 1 /\ Get(post, un[1], j) \in {"P", "Z"})
                            THEN ":indirect_lower_stage_partial_only_direct_parent_checked"
                       ELSE ""
           feats == {Feat(un) : un \in early}
           One(f) == F(f \notin feats, "C05:job_started_before_lower_store_complete" \o f)
       IN One("") \o One(":first_segment_of_later_starting_stage") \o One(":unit_completed_by_file_after_a_gap")
          \o One(":indirect_lower_stage_partial_only_direct_parent_checked"))

DriftOf(r, u, post) ==
     F(post = u.m, "drift:matrix")
  \o F(r.segDone = u.sd, "drift:segment_completed")
  \o F(r.busy = u.busy, "drift:busy_workers")
  \o F(r.outDone = u.out /\ r.storesDone = u.sto, "drift:completion_flags")
  \o F(~cfg.hasWalker \/ (r.walker.cur = u.wseg /\ r.walker.working = u.ww), "drift:walker")

Init ==
  /\ l = 1 /\ bad = <<>> /\ drift = <<>> /\ lastMerged = <<>> /\ active = FALSE /\ gap = FALSE
  /\ cfg = [kinds |-> <<>>] /\ st = <<>> /\ segDone = <<>> /\ shadowable = 0 /\ busy = 0
  /\ walkerSeg = 0 /\ walkerWorking = FALSE /\ outDone = FALSE /\ storesDone = FALSE /\ invalid = ""

SVars == <<cfg, st, segDone, shadowable, busy, walkerSeg, walkerWorking, outDone, storesDone, invalid>>

\* silent step after "sinit": Scheduler.Init() runs CmdTryMerge for every store stage before the first Update
ApplyInit ==
  /\ l <= Len(Trace) /\ ~active /\ Trace[l].ev = "supd"
  /\ st' = InitMerges(st, segDone, 0)
  /\ active' = TRUE
  /\ UNCHANGED <<l, bad, drift, lastMerged, gap, cfg, segDone, shadowable, busy, walkerSeg, walkerWorking, outDone, storesDone, invalid>>

Consume ==
  /\ l <= Len(Trace)
  /\ ~(~active /\ Trace[l].ev = "supd")
  /\ l' = l + 1
  /\ LET r == Trace[l] IN
     IF r.ev = "sinit" THEN
        LET c == CfgOf(r) IN
        /\ cfg' = c
        /\ segDone' = r.internals.SegmentCompleted
        /\ shadowable' = r.internals.ShadowableSegment
        /\ st' = MatrixOf(c, r.rows)
        /\ busy' = 0 /\ walkerSeg' = r.walker.cur /\ walkerWorking' = FALSE /\ outDone' = ~r.walker.has /\ storesDone' = FALSE /\ invalid' = ""
        /\ lastMerged' = [i \in 1..Len(c.kinds) |-> -1]
        /\ active' = FALSE
        \* known-finding feature: the cache held a store snapshot for a segment while the snapshot of the segment before is missing
        /\ gap' = LET m == MatrixOf(c, r.rows) IN
                  \E i \in 1..Len(c.kinds) : c.kinds[i] = "S" /\ \E sg \in (c.offset + 1)..c.glast :
                      sg > c.first[i] /\ m[sg][i] = "C" /\ m[sg - 1][i] \notin {"C", "N"}
        /\ UNCHANGED <<bad, drift>>
     ELSE IF r.ev = "supd" THEN
        LET post == MatrixOf(cfg, r.rows)
            u == Update([t |-> r.t, seg |-> r.seg, stage |-> r.stage])
            f == StepFails(r, u, post)
            d == DriftOf(r, u, post)
        IN /\ bad' = IF f = <<>> THEN bad ELSE Append(bad, [i |-> l, why |-> f])
           /\ drift' = IF d = <<>> THEN drift ELSE Append(drift, [i |-> l, why |-> d])
           \* re-synchronise on the observed state
           /\ st' = post /\ segDone' = r.segDone /\ busy' = r.busy /\ shadowable' = r.shadowable
           /\ walkerSeg' = r.walker.cur /\ walkerWorking' = r.walker.working /\ outDone' = r.outDone /\ storesDone' = r.storesDone
           /\ invalid' = ""
           /\ lastMerged' = IF r.t = "MergeFinished" THEN [lastMerged EXCEPT ![r.stage + 1] = r.seg] ELSE lastMerged
           /\ UNCHANGED <<cfg, active, gap>>
     ELSE IF r.ev = "send" THEN
        /\ bad' = IF r.panic # "" THEN Append(bad, [i |-> l, why |-> <<"C05:scheduler_panic">>]) ELSE bad
        /\ UNCHANGED <<drift, lastMerged, active, gap, SVars>>
     ELSE UNCHANGED <<bad, drift, lastMerged, active, gap, SVars>>

Next == ApplyInit \/ Consume

Done == l = Len(Trace) + 1
WriteVerdict == Done => JsonSerialize(IOEnv.VERIF_OUT, [n |-> Len(Trace), bad |-> bad, drift |-> drift])
===============================================================================
