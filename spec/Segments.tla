--------------------------- MODULE Segments ---------------------------
(* Segment arithmetic of block/segmenter.go, block/range.go, block/ranges.go.       *)
(* A range is a pair <<start, exclusiveEnd>>; "no segment" is the empty tuple <<>>. *)
(* Reference operators (transcribed from the code) + the C13 predicates, which are   *)
(* stated over *any* candidate answer so that they can judge observed answers.      *)
EXTENDS Integers, Sequences, FiniteSets

Min(a, b) == IF a < b THEN a ELSE b
Max(a, b) == IF a > b THEN a ELSE b

------------------------------------------------------------------------
(* Reference operators: what block.Segmenter computes *)

FirstIndex(sz, init) == init \div sz
LastIndex(sz, end)   == (end - 1) \div sz
Count(sz, init, end) == LastIndex(sz, end) - FirstIndex(sz, init) + 1

SegRange(sz, init, end, i) ==
  IF i < FirstIndex(sz, init) \/ i > LastIndex(sz, end) THEN <<>>
  ELSE << Max(init, i * sz), Min(end, (i + 1) * sz) >>

IndexForStartBlock(sz, b) == b \div sz
IndexForEndBlock(sz, b)   == (b - 1) \div sz
EndsOnInterval(sz, init, end, i) == SegRange(sz, init, end, i)[2] % sz = 0

AllSegs(sz, init, end) ==
  [k \in 1..Count(sz, init, end) |-> SegRange(sz, init, end, FirstIndex(sz, init) + k - 1)]

\* Range.Split(chunk): first chunk ends on the next multiple of chunk
RECURSIVE SplitFrom(_, _, _)
SplitFrom(s, e, c) ==
  IF s >= e THEN <<>>
  ELSE LET ne == Min(e, (s + c) - ((s + c) % c)) IN <<<<s, ne>>>> \o SplitFrom(ne, e, c)
Split(r, c) == IF r[2] - r[1] <= c THEN <<r>> ELSE SplitFrom(r[1], r[2], c)

\* Ranges.Merged(): fuse runs of adjacent ranges
RECURSIVE Merged(_)
Merged(rs) ==
  IF Len(rs) <= 1 THEN rs
  ELSE IF rs[1][2] = rs[2][1]
       THEN Merged(<< <<rs[1][1], rs[2][2]>> >> \o SubSeq(rs, 3, Len(rs)))
       ELSE <<rs[1]>> \o Merged(Tail(rs))

------------------------------------------------------------------------
(* C13 predicates over candidate answers *)

IsRange(r) == Len(r) = 2 /\ r[1] < r[2]

Covered(rs) == UNION { r[1]..(r[2] - 1) : r \in { rs[i] : i \in DOMAIN rs } }

\* `rs` (sequence of ranges) tiles [init, end) with segment size sz
Tiles(sz, init, end, rs) ==
  /\ Len(rs) >= 1
  /\ \A i \in DOMAIN rs : IsRange(rs[i]) /\ rs[i][2] - rs[i][1] <= sz
  /\ rs[1][1] = init
  /\ rs[Len(rs)][2] = end
  /\ \A i \in 1..(Len(rs) - 1) : rs[i][2] = rs[i + 1][1]          \* contiguous, disjoint
  /\ \A i \in 2..Len(rs) : rs[i][1] % sz = 0                      \* aligned except at the two ends
  /\ \A i \in 1..(Len(rs) - 1) : rs[i][2] % sz = 0
  /\ Covered(rs) = init..(end - 1)                                \* union is exactly [init, end)

\* index answers designate the segment containing the block
StartIndexOK(b, idx, first, rs) ==
  LET k == idx - first + 1 IN k \in DOMAIN rs /\ rs[k][1] <= b /\ b < rs[k][2]
EndIndexOK(e, idx, first, rs) ==
  LET k == idx - first + 1 IN k \in DOMAIN rs /\ rs[k][1] < e /\ e <= rs[k][2]

SplitOK(r, c, out) ==
  /\ Len(out) >= 1
  /\ \A i \in DOMAIN out : IsRange(out[i])
  /\ out[1][1] = r[1] /\ out[Len(out)][2] = r[2]
  /\ \A i \in 1..(Len(out) - 1) : out[i][2] = out[i + 1][1]
  /\ Covered(out) = Covered(<<r>>)

SortedDisjoint(rs) ==
  /\ \A i \in DOMAIN rs : IsRange(rs[i])
  /\ \A i \in 1..(Len(rs) - 1) : rs[i][2] <= rs[i + 1][1]

MergedOK(in, out) ==
  /\ SortedDisjoint(out)
  /\ Covered(out) = Covered(in)
  /\ \A i \in 1..(Len(out) - 1) : out[i][2] < out[i + 1][1]      \* nothing adjacent is left unmerged

========================================================================
