------------------------------- MODULE MCWire -------------------------------
(* Design-level theorem: Decode(Encode(m)) = m for StoreData messages over a tiny alphabet       *)
(* (<= 2 entries, keys/values of <= 2 bytes over {0, 1, 255}, <= 1 prefix), and varint limbs of   *)
(* the boundary numbers survive the round trip.                                                   *)
EXTENDS Wire
B == {0, 1, 255}
Strs == {<<>>} \cup [1..1 -> B] \cup [1..2 -> B]
VARIABLE m
P == Strs \X Strs
KVs == {{}} \cup {{e} : e \in P} \cup {s \in {{e1, e2} : e1 \in P, e2 \in P} : Cardinality(s) = 2 /\ \A x, y \in s : x[1] = y[1] => x = y}
Init == m \in [kv : KVs, del : {<<>>} \cup {<<p>> : p \in Strs}]
Next == UNCHANGED m
RECURSIVE EncKV(_)
EncKV(S) == IF S = {} THEN <<>> ELSE LET e == CHOOSE x \in S : TRUE IN EncLen(1, EncEntry(e[1], e[2])) \o EncKV(S \ {e})
Enc(x) == EncKV(x.kv) \o (IF x.del = <<>> THEN <<>> ELSE EncLen(2, x.del[1]))
RoundTrip == LET d == DecodeStoreData(Enc(m)) IN d.ok /\ d.kv = m.kv /\ d.del = m.del
Numbers == {0, 1, 127, 128, 16383, 16384, 2097151, 2097152, 268435455}
VarintOK == \A n \in Numbers : LET r == ReadVarint(EncVarintInt(n), 1) IN r.ok /\ ToInt(r.limbs) = n /\ r.next = Len(EncVarintInt(n)) + 1
==============================================================================
