------------------------------ MODULE MCReconnect ------------------------------
(* Pipeline.tla under fork histories AND reconnections: the client of MCPipeline may lose its connection at any moment      *)
(* (also in the middle of a reorganisation, after some of its undo steps), the chain keeps growing and reorganising while    *)
(* it is away, and it comes back with the cursor of the last message it received (a data message's block, or the last valid  *)
(* block of an undo signal).  The cursor resolver answers with the highest block of the client's branch that is still on the *)
(* chain; PResume (resolve.go) turns that into an undo signal and a start block; a fresh pipeline (gate closed) is then fed   *)
(* the chain from the hand-off on.                                                                                            *)
(*                                                                                                                            *)
(* Checked: no bad message (relative to what the client holds and to the range it ORIGINALLY asked for), and whenever the    *)
(* client is connected and no reorganisation is in progress it holds exactly the canonical chain from StartC on.             *)
(* Note what this model shows about gate.go: after a reconnection an undo step BELOW the new stream's start block must open   *)
(* the gate and must be signalled - the client holds those blocks from its earlier connection.  That is the legitimate use of *)
(* "any undo step opens the gate"; open finding D11 is the same rule applied to a request that has no cursor.                 *)
EXTENDS Pipeline, TLC
CONSTANTS MaxH, Branches, StartC, MaxReorgs, MaxReconnects
VARIABLES canon, pend, ps, held, bad, reorgs,
          conn,     \* is the client connected
          start,    \* start block of the current stream (the gate block)
          cur,      \* block designated by the cursor of the last message the client received (NoBlk: none yet)
          recs
vars == <<canon, pend, ps, held, bad, reorgs, conn, start, cur, recs>>

\* The client's branch below its first block is not modelled (Junction takes it to be the chain): the model is for a first
\* request whose start block cannot be reorganised away.  (With a start cursor the protocol ignores the request's start block
\* number, so after a reorganisation below it a resumed stream legitimately restarts below it: outside C04's stated range.)
ASSUME StartC = 1

\* feed messages to the client, remembering the first property broken
RECURSIVE Go(_, _, _, _)
Go(h, ms, b, c) ==
  IF ms = <<>> THEN [held |-> h, bad |-> b, cur |-> c]
  ELSE LET m == Head(ms)
           nb == IF b = "data_below_start_block" THEN b
                 ELSE IF m.k = "data" /\ m.b.h < StartC THEN "data_below_start_block"
                 ELSE IF b # "" THEN b
                 ELSE IF ~UndoOK(h, m) THEN "undo_signal_designates_block_client_does_not_hold"
                 ELSE IF ~DataOK(h, m) THEN "two_blocks_at_same_height_without_undo"
                 ELSE "" IN
       Go(ClientStep(h, m), Tail(ms), nb, m.b)

Deliver(st) ==
  LET r == PStep(ps, st, start, recs > 0)          \* every stream after the first carries a resolved cursor
      g == Go(held, r.msgs, bad, cur)
  IN ps' = r.ps /\ held' = g.held /\ bad' = g.bad /\ cur' = g.cur

Init == /\ canon = <<>> /\ pend = <<>> /\ ps = PInit /\ held = <<>> /\ bad = "" /\ reorgs = 0
        /\ conn = TRUE /\ start = StartC /\ cur = NoBlk /\ recs = 0

Extend(br) ==
  /\ pend = <<>> /\ Len(canon) < MaxH
  /\ LET b == [h |-> Len(canon) + 1, br |-> br] IN
       /\ canon' = Append(canon, b)
       /\ IF conn THEN Deliver([k |-> "new", b |-> b, j |-> NoBlk]) ELSE UNCHANGED <<ps, held, bad, cur>>
  /\ UNCHANGED <<pend, reorgs, conn, start, recs>>

Reorg(j) ==
  /\ pend = <<>> /\ reorgs < MaxReorgs /\ j >= 1 /\ j < Len(canon)
  /\ reorgs' = reorgs + 1
  /\ IF conn
     THEN /\ pend' = [i \in 1..(Len(canon) - j) |-> [k |-> "undo", b |-> canon[Len(canon) - i + 1], j |-> canon[j]]]
          /\ UNCHANGED canon
     ELSE /\ canon' = SubSeq(canon, 1, j) /\ UNCHANGED pend       \* nobody is listening: the chain just changes
  /\ UNCHANGED <<ps, held, bad, conn, start, cur, recs>>

Undo ==
  /\ pend # <<>> /\ conn
  /\ Deliver(Head(pend))
  /\ canon' = SubSeq(canon, 1, Len(canon) - 1)
  /\ pend' = Tail(pend)
  /\ UNCHANGED <<reorgs, conn, start, recs>>

\* the connection drops; the undo steps not yet delivered are never seen by this client
Disconnect ==
  /\ conn /\ cur # NoBlk /\ recs < MaxReconnects
  /\ conn' = FALSE /\ recs' = recs + 1
  /\ canon' = SubSeq(canon, 1, Len(canon) - Len(pend)) /\ pend' = <<>>
  /\ UNCHANGED <<ps, held, bad, reorgs, start, cur>>

\* the client's branch up to its cursor: what it holds, as a function of the height (blocks below StartC are common)
HeldAt(h) == IF \E i \in DOMAIN held : held[i].h = h THEN held[CHOOSE i \in DOMAIN held : held[i].h = h] ELSE NoBlk
Common(h) == \A g \in StartC..h : g <= Len(canon) /\ HeldAt(g) = canon[g]
\* the resolver: the cursor's block if the whole branch up to it is still the chain, else the highest common block
Junction ==
  IF cur.h < StartC THEN cur                                     \* the block before the client's first: below every fork considered
  ELSE IF Common(cur.h) THEN cur
  ELSE LET hs == {h \in StartC..cur.h : Common(h)} IN
       IF hs = {} THEN (IF StartC = 1 THEN [h |-> 0, br |-> ""] ELSE canon[StartC - 1])
       ELSE canon[CHOOSE h \in hs : \A g \in hs : g <= h]

Reconnect ==
  /\ ~conn /\ pend = <<>>
  /\ LET r == PResume(cur, Junction)
         feed == [i \in 1..Len(canon) |-> [k |-> "new", b |-> canon[i], j |-> NoBlk]]
         RECURSIVE Run(_, _)
         Run(p, sts) == IF sts = <<>> THEN [ps |-> p, msgs |-> <<>>]
                        ELSE LET x == PStep(p, Head(sts), r.start, TRUE)  y == Run(x.ps, Tail(sts)) IN [ps |-> y.ps, msgs |-> x.msgs \o y.msgs]
         run == Run(PInit, feed)
         g == Go(held, r.msgs \o run.msgs, bad, cur)
     IN /\ start' = r.start /\ ps' = run.ps
        /\ held' = g.held /\ bad' = g.bad /\ cur' = g.cur
  /\ conn' = TRUE
  /\ UNCHANGED <<canon, pend, reorgs, recs>>

Next == (\E br \in Branches : Extend(br)) \/ (\E j \in 1..MaxH : Reorg(j)) \/ Undo \/ Disconnect \/ Reconnect
Spec == Init /\ [][Next]_vars

NoBadMessage == bad = ""
NoDataBelowStart == bad # "data_below_start_block"
ClientIsCanonical ==
  (conn /\ pend = <<>>) => held = SelectSeq(canon, LAMBDA b : b.h >= StartC)
\* vacuity guards (expected to be violated: used with expect_violation to show the interesting situations are reached)
NeverForkedReconnect == ~(~conn /\ pend = <<>> /\ cur # NoBlk /\ Junction # cur)
=============================================================================
