#!/bin/sh
# Run once after a fresh restore, offline: warm the Go build cache for the harness (built from /repo + /verif/harness).
set -e
cd "$(dirname "$0")"
export GOFLAGS=-mod=mod GOPROXY=off GOSUMDB=off GOTOOLCHAIN=local
mkdir -p .build evidence replays
{ echo "module verif/harness"; sed '1d' /repo/go.mod; echo; echo "require github.com/streamingfast/substreams v0.0.0"; echo "replace github.com/streamingfast/substreams => /repo"; } > harness/go.mod
cp /repo/go.sum harness/go.sum
(cd harness && go build -tags verif -o ../.build/vharness .)
command -v tlc >/dev/null
echo "setup ok"
